SPECIFICATION Spec
CONSTANTS
  Mode = "full"
  Known = {}
  NC = 7
CONSTRAINT HW
INVARIANT Inv
POSTCONDITION Accepted
CHECK_DEADLOCK FALSE
