SPECIFICATION Spec
CONSTANTS
  IdentSet = {1,2,3,4,5}
  Offs <- OffsSmall
  MaxCand = 5
  AddFlags <- AddOnly
VIEW View
INVARIANT ReachFive
CHECK_DEADLOCK FALSE
