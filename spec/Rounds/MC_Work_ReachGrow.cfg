SPECIFICATION Spec
CONSTANTS
  NM = 3
  ND = 2
  Proposer = 1
  MaxRound = 1
  MaxSub = 6
  Tables = {1}
  SnapIds = {1,2,3,4,5,6}
VIEW View
PROPERTY ReachGrow
CHECK_DEADLOCK FALSE
