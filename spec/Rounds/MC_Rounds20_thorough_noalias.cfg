SPECIFICATION Spec
CONSTANTS
  NC = 7
  Driven = {1,2,3}
  Targets = {1,2,3,4}
  AliasTargets = {}
  MaxNum = 2
  MaxOps = 7
  Known = {}
VIEW View
INVARIANT Inv
PROPERTY StepProp
CHECK_DEADLOCK FALSE
