---------------------------- MODULE MC_Rounds20 ----------------------------
(* C20, engine E3/E1: NC genesis chains, the chains in Driven make round     *)
(* transitions (at most MaxOps operations in total, head numbers <= MaxNum)   *)
(* with references to final rounds of the chains in Targets that are stale,   *)
(* current, not yet final / unknown, their own, to chain identifiers          *)
(* (AliasTargets) and to unknown hashes; strict (proposal) and finalized      *)
(* paths; good, stale and bogus self references.                              *)
EXTENDS Rounds, Json, TLC

CONSTANTS NC, Driven, Targets, AliasTargets, MaxNum, MaxOps, Order, Jumps

Chains == 1..NC

\* the node order of the harness genesis (identifiers sorted as strings; reported by the harness at Reset)
OrderReal == <<7, 4, 1, 2, 3, 6, 5>>

InitG == InitGraph(NC, Order)

VARIABLES G, n, last
vars == <<G, n, last>>

Exts(c) == { FRef(x, k) : x \in Targets, k \in 0..MaxNum } \cup { HRef(x) : x \in AliasTargets } \cup { URef }

\* "early" only makes sense against a known final round
EarlyOK(r, early) == early => (r.k = "F" /\ r.n < G.num[r.c])

OtherTarget(c) == CHOOSE x \in Targets : x # c

NoOp(op, c) == [op |-> op, c |-> c, self |-> "-", ext |-> URef, early |-> FALSE, fin |-> FALSE, strict |-> FALSE]

Ops ==
    (IF Jumps /\ ~G.late THEN { NoOp("Jump", 1) } ELSE {}) \cup
    UNION { 
      { [op |-> "Add", c |-> c, self |-> "-", ext |-> URef, early |-> FALSE, fin |-> FALSE, strict |-> FALSE] : x \in { 1 : y \in {1} \cap (IF G.has[c] THEN {} ELSE {1}) } }
      \cup
      (IF G.num[c] < MaxNum THEN
        { [op |-> "Start", c |-> c, self |-> "good", ext |-> r, early |-> m[1], fin |-> m[2], strict |-> ~m[2]] :
             r \in { x \in Exts(c) : x.k = "F" => x.n <= G.num[x.c] },
             m \in { <<FALSE, FALSE>>, <<TRUE, FALSE>>, <<FALSE, TRUE>> } }
        \cup
        { [op |-> "Start", c |-> c, self |-> sf, ext |-> FRef(OtherTarget(c), 0), early |-> FALSE, fin |-> f, strict |-> ~f] :
             sf \in {"stale", "bogus"}, f \in BOOLEAN }
       ELSE {})
      \cup
      { [op |-> "Update", c |-> c, self |-> "same", ext |-> r, early |-> m[1], fin |-> ~m[2], strict |-> m[2]] :
             r \in { x \in Exts(c) : x.k = "F" => x.n <= G.num[x.c] },
             m \in { <<FALSE, FALSE>>, <<TRUE, TRUE>>, <<FALSE, TRUE>> } }
      \cup
      { [op |-> "Update", c |-> c, self |-> "other", ext |-> FRef(OtherTarget(c), 0), early |-> FALSE, fin |-> ~st, strict |-> st] :
             st \in BOOLEAN }
      : c \in Driven }

Init == G = InitG /\ n = 0 /\ last = [o |-> [op |-> "Init"], res |-> "ok", why |-> "ok", dummy |-> FALSE]

Next == /\ n < MaxOps
        /\ \E o \in { x \in Ops : EarlyOK(x.ext, x.early) } :
             LET r == ApplyOp(G, o) IN
               /\ G' = r.G
               /\ last' = [o |-> o, res |-> r.res, why |-> r.why, dummy |-> r.dummy]
        /\ n' = n + 1

Spec == Init /\ [][Next]_vars
View == G

\* every head references a known final round of another chain; durable and in-memory links agree
Inv == \A c \in Chains :
          /\ KnownFinalOther(G, c, G.ext[c])
          /\ G.dl[c] = G.ml[c]

StepProp == [][StepOK20(G, last'.o, last'.res, TRUE, G')]_vars

\* no operation aborts (the durable / in-memory link mismatch abort is unreachable)
NoAbort == [][last'.res # "panic"]_vars

\* non-vacuity witnesses (action properties that must be violated)
ReachBackLink == [][~(last'.o.op = "Start" /\ last'.res = "err" /\ last'.o.self = "good" /\ G.has[last'.o.c]
                       /\ last'.o.ext.k = "F" /\ last'.o.ext.c # last'.o.c /\ last'.o.ext.n < G.num[last'.o.ext.c]
                       /\ last'.o.fin /\ last'.o.ext.n < G.ml[last'.o.c][last'.o.ext.c])]_vars
ReachDummy == [][~(last'.dummy /\ G'.num[last'.o.c] = 3)]_vars
\* a strict transition refused only by the "too early against the best round" rule, with a reference
\* that would have moved the link
ReachTooEarly == [][~(last'.why = "tooearly" /\ last'.o.ext.n > G.ml[last'.o.c][last'.o.ext.c])]_vars

Compact(H) == [num |-> [c \in Targets |-> H.num[c]], ext |-> [c \in Targets |-> H.ext[c]],
               has |-> [c \in Targets |-> H.has[c]], dl |-> [c \in Driven |-> [x \in Targets |-> H.dl[c][x]]],
               era |-> [c \in Targets |-> H.era[c]], hera |-> [c \in Targets |-> H.hera[c]], late |-> H.late]

Emit == PrintT("EDGE " \o ToJson([from |-> Compact(G), o |-> last'.o, ok |-> last'.res, why |-> last'.why, to |-> Compact(G')]))
=============================================================================
