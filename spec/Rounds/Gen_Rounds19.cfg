SPECIFICATION Spec
CONSTANTS
  IdentSet = {1,2,3,6,7}
  Offs <- OffsGen
  MaxCand = 5
  AddFlags <- AddOnly
VIEW View
INVARIANT Inv
ACTION_CONSTRAINT Emit
CHECK_DEADLOCK FALSE
