SPECIFICATION Spec
CONSTANTS
  NM = 3
  ND = 2
  Proposer = 1
  MaxRound = 2
  MaxSub = 7
  Tables = {1, 2}
  SnapIds = {1,2,3,4,5,6,7,8}
VIEW View
INVARIANT Inv
PROPERTY StepProp
PROPERTY NoAbort
CHECK_DEADLOCK FALSE
