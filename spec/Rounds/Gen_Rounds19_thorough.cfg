SPECIFICATION Spec
CONSTANTS
  IdentSet = {1,2,3,4,6,7,8}
  Offs <- OffsSmall
  MaxCand = 5
  AddFlags <- AddOnly
VIEW View
INVARIANT Inv
ACTION_CONSTRAINT Emit
CHECK_DEADLOCK FALSE
