SPECIFICATION Spec
CONSTANTS
  Mode = "monitor"
  NC = 7
CONSTRAINT HW
INVARIANT Inv
POSTCONDITION Accepted
CHECK_DEADLOCK FALSE
