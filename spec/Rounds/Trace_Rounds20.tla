--------------------------- MODULE Trace_Rounds20 ---------------------------
(***************************************************************************)
(* Trace specification of round transitions (C20, engine E2).              *)
(*                                                                         *)
(* Event lines recorded by harness/inpkg/kernel/zz_verif_rounds (C20 part):*)
(*  {"ev":"Reset","obs":O}        a fresh node over a fresh store (genesis)*)
(*  {"ev":"Op","o":{op,c,self,ext,early,fin,strict},"res":ok|err|panic,   *)
(*   "dummy":b,"obs":O}           one real Add / Start / Update on chain c *)
(*  O, per chain (arrays indexed by chain): durable num, self, ext (head    *)
(*  record via ReadRound), dl (ReadLink), finrec (record of the last closed *)
(*  round); in memory mnum, mself, mext, mfinal, fnum, has, ml (ChainState).*)
(*  Round hashes are reported as references [k, c, n] (Rounds.tla part 2).  *)
(*                                                                         *)
(* Mode "full":    result, dummy flag and state equal Rounds!ApplyOp, the   *)
(*                 in-memory mirror equals the durable state.               *)
(* Mode "monitor": exactly C20: an accepted transition satisfies StepOK20   *)
(*    (number + 1 / same, self = hash of the closed round, external = known *)
(*    final round of another chain, no link decreases - durable and in      *)
(*    memory), a rejected one leaves the whole observation unchanged.       *)
(***************************************************************************)
EXTENDS TraceLib, Rounds

CONSTANTS Mode, NC

VARIABLES l, G, P
vars == <<l, G, P>>

Ev == Trace[l]
IsEvent(name) == l <= TraceLen /\ Ev.ev = name /\ l' = l + 1

Chains == 1..NC

ObsG(o) == [num |-> o.num, ext |-> o.ext, has |-> o.has, dl |-> o.dl, ml |-> o.ml,
            era |-> o.era, hera |-> o.hera, late |-> o.late, order |-> o.order]

InitG == InitGraph(NC, [i \in 1..NC |-> i])

Mirror(o) == o.mnum = o.num /\ o.mext = o.ext /\ o.mself = o.self

Init == l = 1 /\ G = InitG /\ P = <<>>

Reset ==
    /\ IsEvent("Reset")
    /\ Mode = "full" => ObsG(Ev.obs) = InitGraph(NC, Ev.obs.order) /\ Mirror(Ev.obs)
    /\ G' = ObsG(Ev.obs) /\ P' = Ev.obs

\* the new head commits to the round just closed: durable, in memory, and the closed round's record exists
SelfOK(o, c, closed) ==
    /\ o.self[c] = FRef(c, closed) /\ o.mself[c] = FRef(c, closed)
    /\ o.mfinal[c] = FRef(c, closed) /\ o.fnum[c] = closed
    /\ o.finrec[c]

Op ==
    /\ IsEvent("Op")
    /\ LET o   == Ev.o
           c   == o.c
           obs == Ev.obs
           G2  == ObsG(obs)
           r   == ApplyOp(G, o) IN
        /\ IF Mode = "full"
           THEN /\ Ev.res = r.res /\ Ev.dummy = r.dummy /\ G2 = r.G
                /\ Mirror(obs)
                /\ (o.op = "Start" /\ Ev.res = "ok") => SelfOK(obs, c, G.num[c])
           ELSE \/ o.op \in {"Add", "Jump"}
                \/ /\ Ev.res # "ok"
                   /\ obs = P
                \/ /\ Ev.res = "ok"
                   /\ StepOK20(G, o, "ok", o.op = "Start" => SelfOK(obs, c, G.num[c]), G2)
                   /\ obs.mnum[c] = obs.num[c] /\ obs.mext[c] = obs.ext[c]
        /\ G' = G2 /\ P' = obs

Next == Reset \/ Op
Spec == Init /\ [][Next]_vars

HW == HighWaterOf(l)
Accepted == TraceAcceptedAt

Inv == \A c \in Chains : KnownFinalOther(G, c, G.ext[c])
=============================================================================
