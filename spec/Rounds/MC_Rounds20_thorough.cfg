SPECIFICATION Spec
CONSTANTS
  NC = 7
  Driven = {1,2,3}
  Targets = {1,2,3,4}
  AliasTargets = {1,2,3}
  MaxNum = 2
  MaxOps = 7
  Order <- OrderReal
  Jumps = TRUE
VIEW View
INVARIANT Inv
PROPERTY StepProp
PROPERTY NoAbort
CHECK_DEADLOCK FALSE
