SPECIFICATION Spec
CONSTANTS
  MaxSize = 4
  Nodes = {1, 2}
  Numbers = {0, 1}
INVARIANT Inv
CHECK_DEADLOCK FALSE
