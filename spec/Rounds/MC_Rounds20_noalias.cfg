SPECIFICATION Spec
CONSTANTS
  NC = 7
  Driven = {1,2}
  Targets = {1,2,3}
  AliasTargets = {}
  MaxNum = 3
  MaxOps = 100
  Known = {}
VIEW View
INVARIANT Inv
PROPERTY StepProp
CHECK_DEADLOCK FALSE
