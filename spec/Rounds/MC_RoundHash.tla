---------------------------- MODULE MC_RoundHash ----------------------------
(* C18, engine E3 + case emission (E1): every (node, number, ordered slice)  *)
(* over a pool of 6 snapshots, 5 of them within 1 ns of each other, slices   *)
(* of 1..MaxSize members in every order.                                     *)
EXTENDS RoundHash, Json, TLC

CONSTANTS MaxSize, Nodes, Numbers

T0 == 2 * 691200 - 12

\* timestamp order disagrees with hash order on purpose
Pool == { [h |-> 1, ts |-> T0 + 1], [h |-> 2, ts |-> T0], [h |-> 3, ts |-> T0], [h |-> 4, ts |-> T0],
          [h |-> 5, ts |-> T0], [h |-> 6, ts |-> T0 - 1] }

Sets == { S \in SUBSET Pool : Cardinality(S) >= 1 /\ Cardinality(S) <= MaxSize }

Perms(S) == { q \in [1..Cardinality(S) -> S] : Range(q) = S }

Cases == UNION { { [node |-> nd, n |-> k, q |-> q] : q \in Perms(S) } : nd \in Nodes, k \in Numbers, S \in Sets }
Args  == { [node |-> nd, n |-> k, S |-> S] : nd \in Nodes, k \in Numbers, S \in Sets }

HashOfArg == [a \in Args |-> RoundHash(a.node, a.n, a.S)]

VARIABLE c
Init == c \in Cases
Next == UNCHANGED c
Spec == Init /\ [][Next]_c

\* order independence: the supplied order is irrelevant
OrderFree == RoundHashOfSeq(c.node, c.n, c.q) = RoundHash(c.node, c.n, Range(c.q))
\* start/end are the extreme timestamps, the sorted sequence is ordered and a permutation of S
Shape == LET S == Range(c.q)  s == Sorted(S) IN
           /\ Range(s) = S /\ Len(s) = Cardinality(S)
           /\ \A i, j \in DOMAIN s : i < j => Less(s[i], s[j])
           /\ s[1].ts = RoundStart(S) /\ s[Len(s)].ts = RoundEnd(S)
           /\ ~Aborts(S)
\* injective in the argument: a different node, number or member set gives a different hash
Injective == LET mine == RoundHashOfSeq(c.node, c.n, c.q)
                 S    == Range(c.q) IN
             \A a \in Args :
               (a.node # c.node \/ a.n # c.n \/ a.S # S) => HashOfArg[a] # mine

Inv == OrderFree /\ Shape /\ Injective

EmitCase == PrintT("CASE " \o ToJson([node |-> c.node, n |-> c.n, q |-> c.q]))
=============================================================================
