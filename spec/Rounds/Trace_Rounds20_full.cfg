SPECIFICATION Spec
CONSTANTS
  Mode = "full"
  NC = 7
CONSTRAINT HW
INVARIANT Inv
POSTCONDITION Accepted
CHECK_DEADLOCK FALSE
