---- MODULE MC_KNonce_TTrace_1790040423 ----
EXTENDS Sequences, TLCExt, MC_KNonce, Toolbox, Naturals, TLC

_expression ==
    LET MC_KNonce_TEExpression == INSTANCE MC_KNonce_TEExpression
    IN MC_KNonce_TEExpression!expression
----

_trace ==
    LET MC_KNonce_TETrace == INSTANCE MC_KNonce_TETrace
    IN MC_KNonce_TETrace!trace
----

_inv ==
    ~(
        TLCGet("level") = Len(_TETrace)
        /\
        last = ([r |-> "r3", s |-> "s3", v |-> "v1", got |-> "r3", res |-> "fresh"])
        /\
        answered = ([r1 |-> {"s1v1"}, r2 |-> {"s2v1"}, r3 |-> {"s3v1"}])
        /\
        K = ([used |-> [s1 |-> "none", s2 |-> "r2", s3 |-> "r3"], pool |-> {}, order |-> <<"s2", "s3">>])
        /\
        handed = ([r1 |-> {"s1"}, r2 |-> {"s2"}, r3 |-> {"s3"}])
        /\
        N = ([r1 |-> [used |-> TRUE, chal |-> "s1v1"], r2 |-> [used |-> TRUE, chal |-> "s2v1"], r3 |-> [used |-> TRUE, chal |-> "s3v1"]])
    )
----

_init ==
    /\ handed = _TETrace[1].handed
    /\ K = _TETrace[1].K
    /\ N = _TETrace[1].N
    /\ last = _TETrace[1].last
    /\ answered = _TETrace[1].answered
----

_next ==
    /\ \E i,j \in DOMAIN _TETrace:
        /\ \/ /\ j = i + 1
              /\ i = TLCGet("level")
        /\ handed  = _TETrace[i].handed
        /\ handed' = _TETrace[j].handed
        /\ K  = _TETrace[i].K
        /\ K' = _TETrace[j].K
        /\ N  = _TETrace[i].N
        /\ N' = _TETrace[j].N
        /\ last  = _TETrace[i].last
        /\ last' = _TETrace[j].last
        /\ answered  = _TETrace[i].answered
        /\ answered' = _TETrace[j].answered

\* Uncomment the ASSUME below to write the states of the error trace
\* to the given file in Json format. Note that you can pass any tuple
\* to `JsonSerialize`. For example, a sub-sequence of _TETrace.
    \* ASSUME
    \*     LET J == INSTANCE Json
    \*         IN J!JsonSerialize("MC_KNonce_TTrace_1790040423.json", _TETrace)

=============================================================================

 Note that you can extract this module `MC_KNonce_TEExpression`
  to a dedicated file to reuse `expression` (the module in the 
  dedicated `MC_KNonce_TEExpression.tla` file takes precedence 
  over the module `MC_KNonce_TEExpression` below).

---- MODULE MC_KNonce_TEExpression ----
EXTENDS Sequences, TLCExt, MC_KNonce, Toolbox, Naturals, TLC

expression == 
    [
        \* To hide variables of the `MC_KNonce` spec from the error trace,
        \* remove the variables below.  The trace will be written in the order
        \* of the fields of this record.
        handed |-> handed
        ,K |-> K
        ,N |-> N
        ,last |-> last
        ,answered |-> answered
        
        \* Put additional constant-, state-, and action-level expressions here:
        \* ,_stateNumber |-> _TEPosition
        \* ,_handedUnchanged |-> handed = handed'
        
        \* Format the `handed` variable as Json value.
        \* ,_handedJson |->
        \*     LET J == INSTANCE Json
        \*     IN J!ToJson(handed)
        
        \* Lastly, you may build expressions over arbitrary sets of states by
        \* leveraging the _TETrace operator.  For example, this is how to
        \* count the number of times a spec variable changed up to the current
        \* state in the trace.
        \* ,_handedModCount |->
        \*     LET F[s \in DOMAIN _TETrace] ==
        \*         IF s = 1 THEN 0
        \*         ELSE IF _TETrace[s].handed # _TETrace[s-1].handed
        \*             THEN 1 + F[s-1] ELSE F[s-1]
        \*     IN F[_TEPosition - 1]
    ]

=============================================================================



Parsing and semantic processing can take forever if the trace below is long.
 In this case, it is advised to uncomment the module below to deserialize the
 trace from a generated binary file.

\*
\*---- MODULE MC_KNonce_TETrace ----
\*EXTENDS IOUtils, MC_KNonce, TLC
\*
\*trace == IODeserialize("MC_KNonce_TTrace_1790040423.bin", TRUE)
\*
\*=============================================================================
\*

---- MODULE MC_KNonce_TETrace ----
EXTENDS MC_KNonce, TLC

trace == 
    <<
    ([last |-> [r |-> "-", s |-> "-", v |-> "-", got |-> "none", res |-> "none"],answered |-> [r1 |-> {}, r2 |-> {}, r3 |-> {}],K |-> [used |-> [s1 |-> "none", s2 |-> "none", s3 |-> "none"], pool |-> {"r1", "r2", "r3"}, order |-> <<>>],handed |-> [r1 |-> {}, r2 |-> {}, r3 |-> {}],N |-> [r1 |-> [used |-> FALSE, chal |-> "-"], r2 |-> [used |-> FALSE, chal |-> "-"], r3 |-> [used |-> FALSE, chal |-> "-"]]]),
    ([last |-> [r |-> "r1", s |-> "s1", v |-> "v1", got |-> "r1", res |-> "fresh"],answered |-> [r1 |-> {"s1v1"}, r2 |-> {}, r3 |-> {}],K |-> [used |-> [s1 |-> "r1", s2 |-> "none", s3 |-> "none"], pool |-> {"r2", "r3"}, order |-> <<"s1">>],handed |-> [r1 |-> {"s1"}, r2 |-> {}, r3 |-> {}],N |-> [r1 |-> [used |-> TRUE, chal |-> "s1v1"], r2 |-> [used |-> FALSE, chal |-> "-"], r3 |-> [used |-> FALSE, chal |-> "-"]]]),
    ([last |-> [r |-> "r2", s |-> "s2", v |-> "v1", got |-> "r2", res |-> "fresh"],answered |-> [r1 |-> {"s1v1"}, r2 |-> {"s2v1"}, r3 |-> {}],K |-> [used |-> [s1 |-> "r1", s2 |-> "r2", s3 |-> "none"], pool |-> {"r3"}, order |-> <<"s1", "s2">>],handed |-> [r1 |-> {"s1"}, r2 |-> {"s2"}, r3 |-> {}],N |-> [r1 |-> [used |-> TRUE, chal |-> "s1v1"], r2 |-> [used |-> TRUE, chal |-> "s2v1"], r3 |-> [used |-> FALSE, chal |-> "-"]]]),
    ([last |-> [r |-> "r3", s |-> "s3", v |-> "v1", got |-> "r3", res |-> "fresh"],answered |-> [r1 |-> {"s1v1"}, r2 |-> {"s2v1"}, r3 |-> {"s3v1"}],K |-> [used |-> [s1 |-> "none", s2 |-> "r2", s3 |-> "r3"], pool |-> {}, order |-> <<"s2", "s3">>],handed |-> [r1 |-> {"s1"}, r2 |-> {"s2"}, r3 |-> {"s3"}],N |-> [r1 |-> [used |-> TRUE, chal |-> "s1v1"], r2 |-> [used |-> TRUE, chal |-> "s2v1"], r3 |-> [used |-> TRUE, chal |-> "s3v1"]]])
    >>
----


=============================================================================

---- CONFIG MC_KNonce_TTrace_1790040423 ----
CONSTANTS
    Snaps = { "s1" , "s2" , "s3" }
    Commits = { "r1" , "r2" , "r3" }
    Variants = { "v1" , "v2" }
    Max = 2

INVARIANT
    _inv

CHECK_DEADLOCK
    \* CHECK_DEADLOCK off because of PROPERTY or INVARIANT above.
    FALSE

INIT
    _init

NEXT
    _next

CONSTANT
    _TETrace <- _trace

ALIAS
    _expression
=============================================================================
\* Generated on Tue Sep 22 01:27:10 UTC 2026