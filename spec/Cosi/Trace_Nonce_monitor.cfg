SPECIFICATION Spec
CONSTANTS
  Mode = "monitor"
  Procs = {1,2,3,4,5,6,7,8}
  NonceIds = {1,2,3}
CONSTRAINT HW
INVARIANT Inv
POSTCONDITION Accepted
CHECK_DEADLOCK FALSE
