SPECIFICATION Spec
CONSTANTS
  MaxN = 4
  MaxLen = 4
INVARIANT Inv
CONSTRAINT EmitCase
CHECK_DEADLOCK FALSE
