------------------------------- MODULE KNonce -------------------------------
(***************************************************************************)
(* Kernel layer of property C12: kernel/cosi.go                            *)
(*   cosiRetrieveRandom(snapshot, peer, commitment)                        *)
(*        nonce := chain.UsedRandoms[snapshot]                             *)
(*        if nonce != nil && nonce.Public() == commitment { return nonce } *)
(*        nonce = chain.CosiRandoms[commitment]; if nil { return nil }     *)
(*        chain.retainUsedCosiNonce(snapshot, nonce)                       *)
(*        delete(chain.CosiRandoms, commitment); return nonce              *)
(*   retainUsedCosiNonce(snapshot, nonce): remember snapshot -> nonce,     *)
(*        first-in-first-out eviction above Max = 131072 retained entries  *)
(* followed by  nonce.Response(challenge of that snapshot)  in             *)
(* cosiHandleChallenge.  The chain's loop goroutine is the only caller, so  *)
(* the operations are sequential.                                          *)
(*                                                                         *)
(* State K = [pool, used, order]:                                          *)
(*   pool   commitments whose nonce is still in CosiRandoms                *)
(*   used   [Snaps -> commitment | "none"]   (UsedRandoms)                 *)
(*   order  sequence of snapshots (usedRandomsOrder)                       *)
(* and N = [commitment -> atomic nonce machine state] (NonceAtomic).       *)
(* A challenge for snapshot s in variant v (another commitment set chosen  *)
(* by the proposer) is the symbolic value  s \o v : the message of the     *)
(* challenge is the snapshot hash.                                         *)
(***************************************************************************)
EXTENDS Naturals, Sequences, FiniteSets, NonceAtomic

None == "none"

KInit(Snaps, Commits) ==
    [pool |-> Commits, used |-> [s \in Snaps |-> None], order |-> <<>>]

KRetrieve(K, s, r, Max) ==
    IF K.used[s] # None /\ K.used[s] = r THEN [K |-> K, got |-> r]
    ELSE IF r \in K.pool
    THEN LET ord1  == IF K.used[s] = None THEN Append(K.order, s) ELSE K.order
             used1 == [K.used EXCEPT ![s] = r]
             evict == Len(ord1) > Max
         IN  [K |-> [pool  |-> K.pool \ {r},
                     used  |-> IF evict THEN [used1 EXCEPT ![Head(ord1)] = None] ELSE used1,
                     order |-> IF evict THEN Tail(ord1) ELSE ord1],
              got |-> r]
    ELSE [K |-> K, got |-> None]

\* one full-challenge handling: retrieve the nonce, then answer with it
KChallenge(K, N, s, r, v, Max) ==
    LET q == KRetrieve(K, s, r, Max) IN
    IF q.got = None THEN [K |-> q.K, N |-> N, got |-> None, res |-> "none"]
    ELSE LET a == AtomicRespond(N[q.got], s \o v)
         IN  [K |-> q.K, N |-> [N EXCEPT ![q.got] = a.st], got |-> q.got, res |-> a.res]
=============================================================================
