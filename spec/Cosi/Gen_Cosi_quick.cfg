SPECIFICATION Spec
CONSTANTS
  MaxN = 4
  MaxDev = 1
INVARIANT Inv
CONSTRAINT EmitCase
CHECK_DEADLOCK FALSE
