----------------------------- MODULE MC_AggSig -----------------------------
(* Case space of the aggregate-signature model (engines E3 / E1, C14): key   *)
(* vectors of 1..MaxN keys, every sorted signing list, every verification    *)
(* signer list over 0..n up to length MaxLen (sorted, unsorted, duplicated,  *)
(* out of range, subset, superset), every signature kind, and one change of  *)
(* message / key vector.                                                     *)
EXTENDS AggSig, TLC, Json

CONSTANTS MaxN, MaxLen

VARIABLE c

VSame == [op |-> "same", i |-> 0, j |-> 0]

SeqsUpTo(S, k) == UNION { [1 .. m -> S] : m \in 1 .. k }
Sorted(n) == { s \in SeqsUpTo(Idx(n), n) : StrictInc(s) }
MinI(a, b) == IF a < b THEN a ELSE b

VKs(n) == { [op |-> "swap", i |-> p[1], j |-> p[2]] : p \in { q \in Idx(n) \X Idx(n) : q[1] < q[2] } }
          \cup { [op |-> "replace", i |-> i, j |-> 0] : i \in Idx(n) }
          \cup { [op |-> "truncate", i |-> 0, j |-> 0], [op |-> "extend", i |-> 0, j |-> 0] }

Mk(n, ss, vs, sig, vmsg, vk) == [n |-> n, ss |-> ss, vs |-> vs, sig |-> sig, vmsg |-> vmsg, vkeys |-> vk, ri |-> 0, rc |-> 0]
MkRogueC(n, ss, ri, rc) == [Mk(n, ss, ss, "RogueC", "same", VSame) EXCEPT !.ri = ri, !.rc = rc]

Full(n) == [k \in 1 .. n |-> k - 1]

CasesFor(n, ss) ==
    \* every verification signer list
    { Mk(n, ss, vs, "Good", "same", VSame) : vs \in SeqsUpTo(0 .. n, MinI(n, MaxLen)) \cup Sorted(n) \cup {Append(ss, n)} }
    \* every signature kind (Rogue needs the whole vector of at least two keys as signer list)
    \cup { Mk(n, ss, ss, k, "same", VSame) : k \in SigKinds \ {"Good", "Rogue", "RogueW", "RogueC"} }
    \cup (IF n >= 2 /\ ss = Full(n) THEN { Mk(n, ss, ss, k, "same", VSame) : k \in {"Rogue", "RogueW"} } ELSE {})
    \* coefficient-folded key cancellation: every selected key as the rogue one (the others are the
    \* victims: one or several), folding the coefficient of every selected index
    \cup (IF Len(ss) >= 2 THEN { MkRogueC(n, ss, ri, rc) : ri \in SeqSet(ss), rc \in SeqSet(ss) } ELSE {})
    \* one change of message or key vector, also combined with a changed signer list of the same length
    \cup { Mk(n, ss, ss, "Good", "other", VSame) }
    \cup { Mk(n, ss, ss, "Good", "same", vk) : vk \in VKs(n) }
    \cup { Mk(n, ss, vs, "Good", "same", vk) : vk \in VKs(n), vs \in { s \in Sorted(n) : Len(s) = Len(ss) } }

Cases == UNION { UNION { CasesFor(n, ss) : ss \in Sorted(n) } : n \in 1 .. MaxN }

Init == c \in Cases
Next == UNCHANGED c
Spec == Init /\ [][Next]_c

Inv == DesignInv(c)

EmitCase == PrintT("CASE " \o ToJson(c))

\* reachability witnesses (must be VIOLATED)
ReachNonSignerKeyChange == ~(AggVerifyOK(c) /\ c.vkeys.op = "replace")
ReachVerifies == ~(AggVerifyOK(c) /\ Len(c.ss) = MaxN)
=============================================================================
