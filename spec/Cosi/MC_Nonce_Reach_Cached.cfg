SPECIFICATION Spec
CONSTANTS
  Procs <- ProcsA
  Handles <- HandlesA
  Nonces <- NoncesA
  NonceOf <- NonceOfA
  Calls <- CallsA
  WithLock = TRUE
INVARIANT ReachCached
CHECK_DEADLOCK FALSE
