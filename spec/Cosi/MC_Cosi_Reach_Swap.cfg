SPECIFICATION Spec
CONSTANTS
  MaxN = 4
  MaxDev = 1
INVARIANT ReachSwapVerifies
CHECK_DEADLOCK FALSE
