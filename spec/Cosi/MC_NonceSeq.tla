----------------------------- MODULE MC_NonceSeq -----------------------------
(* Sequential behaviours of the atomic nonce machine (engines E3/E1, C12):   *)
(* every state and every transition of two nonces reached through three       *)
(* handle copies with challenges c1 c2 c3 and an uncomputable one.  Each      *)
(* edge is emitted and replayed on the real crypto.CosiNonce.                 *)
EXTENDS NonceAtomic, Json, TLC, Sequences, Naturals

VARIABLES N, last

HandlesS == {"h1", "h2", "g1"}
NoncesS == {"n1", "n2"}
NonceOfS == [h \in HandlesS |-> IF h = "g1" THEN "n2" ELSE "n1"]
Chals == {"c1", "c2", "c3", Bad}

SInit == N = [n \in NoncesS |-> FreshNonce] /\ last = [h |-> "-", c |-> "-", res |-> "-"]

SNext == \E h \in HandlesS, c \in Chals :
           LET n == NonceOfS[h]  r == AtomicRespond(N[n], c) IN
             /\ N' = [N EXCEPT ![n] = r.st]
             /\ last' = [h |-> h, c |-> c, res |-> r.res]

SSpec == SInit /\ [][SNext]_<<N, last>>

View == N

\* design-level theorems of the atomic machine
BoundOnce == [][\A n \in NoncesS : N[n].used => N'[n] = N[n]]_<<N, last>>
AnswerOnlyBound == last.res \in {"fresh", "cached"} => N[NonceOfS[last.h]].chal = last.c
RefuseOther == (last.res = "reuse") <=> (last.c # Bad /\ last.h # "-" /\ N[NonceOfS[last.h]].used
                                          /\ N[NonceOfS[last.h]].chal # last.c)
SInv == AnswerOnlyBound /\ (last.h # "-" => RefuseOther)

Emit == PrintT("EDGE " \o ToJson([from |-> N, o |-> [h |-> last'.h, c |-> last'.c], res |-> last'.res, to |-> N']))
=============================================================================
