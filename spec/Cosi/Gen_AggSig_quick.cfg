SPECIFICATION Spec
CONSTANTS
  MaxN = 4
  MaxLen = 3
INVARIANT Inv
CONSTRAINT EmitCase
CHECK_DEADLOCK FALSE
