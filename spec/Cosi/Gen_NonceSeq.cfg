SPECIFICATION SSpec
VIEW View
INVARIANT SInv
PROPERTY BoundOnce
ACTION_CONSTRAINT Emit
CHECK_DEADLOCK FALSE
