----------------------------- MODULE Trace_Cosi -----------------------------
(***************************************************************************)
(* Trace specification for collective signatures (engine E2, C13).         *)
(* Stateless: every event is one case of MC_Cosi executed on the real code *)
(*  {"ev":"Case","c":{case},"commit":b,"vr":[b x (n+1)],"aggS":b,"aggN":b, *)
(*   "fv":b,"panic":b,"N":len,"layout":..}                                 *)
(*   commit  CosiAggregateCommitment succeeded                             *)
(*   vr[i+1] VerifyResponse accepted the (possibly tampered) share of      *)
(*           index i, for every index 0..n                                 *)
(*   aggS / aggN  AggregateResponse strict / non strict succeeded          *)
(*   fv      FullVerify accepted the final signature (fvpanic: it aborted) *)
(*   fvUsed / fvCopy / fvAgg  the same verification on a value that was    *)
(*           verified and queried with the honest fields first / a struct  *)
(*           copy of such a value / the aggregated value, whose exported   *)
(*           Signature and Mask were then overwritten with the final form  *)
(*   fvBack  final form verified first, value restored to the aggregated   *)
(*           form, verified with the signing key vector and message        *)
(*   tvUsed, nkeys  ThresholdVerify(thr) and len(Keys()) of the used value *)
(* Mode "full":    every outcome equals the specification's outcome.       *)
(* Mode "monitor": exactly the implications of C13 (Cosi!Complete,         *)
(*                 Cosi!RejectBadShare, Cosi!Sound).                       *)
(***************************************************************************)
EXTENDS TraceLib, Cosi

CONSTANT Mode

VARIABLE l

Init == l = 1
Next == l <= TraceLen /\ l' = l + 1
Spec == Init /\ [][Next]_l

CaseOf(e) == [ n |-> e.c.n, cm |-> SeqToSet(e.c.cm), thr |-> e.c.thr, tam |-> e.c.tam,
               dom |-> e.c.dom, form |-> e.c.form, vmsg |-> e.c.vmsg, vkeys |-> e.c.vkeys ]

Full(e) ==
    LET c == CaseOf(e) IN
    /\ ~e.panic
    /\ e.commit = CommitOK(c)
    /\ \A i \in 0 .. c.n : e.vr[i + 1] = VerifyResponseOK(c, i)
    /\ e.aggS = AggregateOK(c, TRUE)
    /\ e.aggN = AggregateOK(c, FALSE)
    /\ e.fv = FullVerifyOK(c)
    \* reused values: same verdict as the fresh value with the same fields
    /\ e.fvUsed = FullVerifyOK(c) /\ e.fvCopy = FullVerifyOK(c) /\ e.fvAgg = FullVerifyOK(c)
    /\ e.fvBack = FullVerifyOK(BackCase(c))
    /\ e.tvUsed = ThresholdOK(c)
    /\ e.nkeys = Cardinality(FinalMask(c))

Monitor(e) ==
    LET c == CaseOf(e) IN
    /\ Complete(c, e.vr, e.aggS, e.aggN, e.fv)
    /\ RejectBadShare(c, e.vr, e.aggS)
    /\ Sound(c, e.fv)
    \* the same implications for signature values that were used before their fields were rewritten
    /\ Sound(c, e.fvUsed) /\ Sound(c, e.fvCopy) /\ Sound(c, e.fvAgg)
    /\ Complete(c, e.vr, e.aggS, e.aggN, e.fvUsed) /\ Complete(c, e.vr, e.aggS, e.aggN, e.fvCopy)
    /\ Complete(c, e.vr, e.aggS, e.aggN, e.fvAgg)
    /\ Sound(BackCase(c), e.fvBack)
    /\ ((AllGood(c) /\ ChallengeOK(c) /\ c.dom.op = "exact" /\ c.thr > 0 /\ c.thr <= Cardinality(c.cm)) => e.fvBack)
    /\ ~e.fvpanic                 \* "verification fails" is an orderly rejection, not an abort

EventOK(e) == IF Mode = "full" THEN Full(e) ELSE Monitor(e)

Inv == l > 1 => EventOK(Trace[l - 1])

HW == HighWaterOf(l)
Accepted == TraceAcceptedAt
=============================================================================
