SPECIFICATION Spec
CONSTANTS
  Procs <- ProcsA
  Handles <- HandlesA
  Nonces <- NoncesA
  NonceOf <- NonceOfA
  Calls <- CallsA
  WithLock = FALSE
INVARIANT OneChallenge
CHECK_DEADLOCK FALSE
