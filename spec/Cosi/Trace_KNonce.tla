---------------------------- MODULE Trace_KNonce ----------------------------
(***************************************************************************)
(* Trace specification for the kernel layer of C12 (engine E2):            *)
(* kernel.Chain.cosiRetrieveRandom / retainUsedCosiNonce followed by       *)
(* CosiNonce.Response, executed sequentially on a real kernel.Chain.       *)
(*  {"ev":"KReset"}                                                        *)
(*  {"ev":"KOp","s":snapshot,"r":commitment,"v":variant,                   *)
(*   "got":commitment of the nonce handed out | "none",                    *)
(*   "res":"ok"|"err"|"panic"|"none","reuse":b,"resp":class,"valid":b,     *)
(*   "obs":{"pool":[commitments still in CosiRandoms],                     *)
(*          "used":{snapshot: commitment | "none"}}}                       *)
(* Mode "full":    handed-out nonce, response outcome and the observed     *)
(*                 maps equal KNonce!KChallenge.                           *)
(* Mode "monitor": C12 only: whatever nonce the kernel hands out, it       *)
(*                 answers at most one challenge, repeats the identical    *)
(*                 response, refuses any other challenge with the reuse    *)
(*                 error.                                                  *)
(***************************************************************************)
EXTENDS TraceLib, KNonce

CONSTANTS Mode, Snaps, Commits, Max

VARIABLES l, K, N, R
vars == <<l, K, N, R>>

InitN == [r \in Commits |-> FreshNonce]
InitR == [r \in Commits |-> 0]

Init == l = 1 /\ K = KInit(Snaps, Commits) /\ N = InitN /\ R = InitR

Ev == Trace[l]
IsEvent(name) == l <= TraceLen /\ Ev.ev = name /\ l' = l + 1

Reset == IsEvent("KReset") /\ K' = KInit(Snaps, Commits) /\ N' = InitN /\ R' = InitR

\* the outcome of Response against the atomic machine of the nonce that was handed out
Answer(g, a) ==
    \/ /\ a.res \in {"fresh", "cached"}
       /\ Ev.res = "ok" /\ Ev.resp # 0
       /\ (Mode = "full" => Ev.valid)
       /\ N' = [N EXCEPT ![g] = a.st]
       /\ IF R[g] = 0 THEN R' = [R EXCEPT ![g] = Ev.resp] ELSE Ev.resp = R[g] /\ R' = R
    \/ /\ a.res = "reuse"
       /\ Ev.res = "err" /\ Ev.reuse
       /\ N' = N /\ R' = R
    \/ /\ Mode # "full" /\ a.res = "fresh"          \* stricter: an orderly refusal of a first request
       /\ Ev.res = "err"
       /\ N' = N /\ R' = R

Op ==
    /\ IsEvent("KOp")
    /\ Ev.s \in Snaps /\ Ev.r \in Commits
    /\ IF Mode = "full"
       THEN LET q == KRetrieve(K, Ev.s, Ev.r, Max) IN
              /\ Ev.got = q.got
              /\ K' = q.K
              /\ SeqToSet(Ev.obs.pool) = q.K.pool
              /\ Ev.obs.used = q.K.used
              /\ IF q.got = None
                 THEN Ev.res = "none" /\ N' = N /\ R' = R
                 ELSE Answer(q.got, AtomicRespond(N[q.got], Ev.s \o Ev.v))
       ELSE /\ K' = K
            /\ IF Ev.got = None
               THEN Ev.res = "none" /\ N' = N /\ R' = R
               ELSE Ev.got \in Commits /\ Answer(Ev.got, AtomicRespond(N[Ev.got], Ev.s \o Ev.v))

Next == Reset \/ Op
Spec == Init /\ [][Next]_vars

HW == HighWaterOf(l)
Accepted == TraceAcceptedAt

Inv == \A r \in Commits : R[r] # 0 => N[r].used
=============================================================================
