SPECIFICATION Spec
CONSTANTS
  Snaps = {"s1", "s2", "s3"}
  Commits = {"r1", "r2", "r3"}
  Variants = {"v1", "v2"}
  Max = 10
INVARIANT ReachRefuse
CHECK_DEADLOCK FALSE
