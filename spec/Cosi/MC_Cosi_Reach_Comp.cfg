SPECIFICATION Spec
CONSTANTS
  MaxN = 4
  MaxDev = 1
INVARIANT ReachCompensated
CHECK_DEADLOCK FALSE
