SPECIFICATION Spec
CONSTANTS
  Procs <- ProcsA
  Handles <- HandlesA
  Nonces <- NoncesA
  NonceOf <- NonceOfA
  Calls <- CallsB
  WithLock = TRUE
INVARIANT Inv
CHECK_DEADLOCK FALSE
