----------------------------- MODULE MC_KNonce -----------------------------
(* Exhaustive model of the kernel's snapshot -> nonce retention (E3 / E1, C12) *)
EXTENDS KNonce, TLC, Json

CONSTANTS Snaps, Commits, Variants, Max

VARIABLES K, N, last, handed, answered

vars == <<K, N, last, handed, answered>>

Init == /\ K = KInit(Snaps, Commits)
        /\ N = [r \in Commits |-> FreshNonce]
        /\ last = [s |-> "-", r |-> "-", v |-> "-", got |-> None, res |-> "none"]
        /\ handed = [r \in Commits |-> {}]       \* history: snapshots a nonce was handed out for
        /\ answered = [r \in Commits |-> {}]     \* history: challenges a nonce answered

Next == \E s \in Snaps, r \in Commits, v \in Variants :
          LET q == KChallenge(K, N, s, r, v, Max) IN
            /\ K' = q.K /\ N' = q.N
            /\ last' = [s |-> s, r |-> r, v |-> v, got |-> q.got, res |-> q.res]
            /\ handed' = IF q.got = None THEN handed ELSE [handed EXCEPT ![q.got] = @ \cup {s}]
            /\ answered' = IF q.res \in {"fresh", "cached"} THEN [answered EXCEPT ![q.got] = @ \cup {s \o v}] ELSE answered

Spec == Init /\ [][Next]_vars

View == <<K, N>>

\* C12 through the kernel path: a nonce is handed out for one snapshot only, answers one challenge only,
\* the pool never holds a retained nonce, and the retained map is what the order queue says
OneSnapshot == \A r \in Commits : Cardinality(handed[r]) <= 1
OneChallenge == \A r \in Commits : Cardinality(answered[r]) <= 1
Disjoint == \A s \in Snaps : K.used[s] # None => K.used[s] \notin K.pool
Bounded == Len(K.order) <= Max /\ { K.order[i] : i \in DOMAIN K.order } = { s \in Snaps : K.used[s] # None }
Inv == OneSnapshot /\ OneChallenge /\ Disjoint /\ Bounded

Emit == PrintT("EDGE " \o ToJson([from |-> [K |-> K, N |-> N],
                                  o |-> [s |-> last'.s, r |-> last'.r, v |-> last'.v],
                                  got |-> last'.got, res |-> last'.res,
                                  to |-> [K |-> K', N |-> N']]))

\* witnesses (must be VIOLATED): a retained nonce refuses a second variant; eviction happens
ReachRefuse == last.res # "reuse"
ReachEvict == ~(\E s \in Snaps : K.used[s] = None /\ \E r \in Commits : s \in handed[r])
=============================================================================
