SPECIFICATION SSpec
VIEW View
INVARIANT SInv
PROPERTY BoundOnce
CHECK_DEADLOCK FALSE
