------------------------------- MODULE Nonce -------------------------------
(***************************************************************************)
(* Single-use CoSi nonce (property C12).                                   *)
(*                                                                         *)
(* Code: crypto/nonce.go                                                   *)
(*   type CosiNonce struct{ state *nonce }     -- a handle; copies of the  *)
(*        handle share the *nonce (TestCosiNonceCopiesShareState)          *)
(*   func (n *nonce) respond(signature, private, publics, message)         *)
(*        challenge, err := signature.Challenge(publics, message)  (1)     *)
(*        if err != nil { return nil, err }                                *)
(*        n.Lock(); defer n.Unlock()                               (2)     *)
(*        if n.used {                                              (3)     *)
(*            if n.challenge != challengeBytes { return ErrCosiNonceReuse }*)
(*            response := n.response; return &response             (4,5)   *)
(*        }                                                                *)
(*        response, err := signature.Response(private, n.random, ..) (6)   *)
(*        n.challenge = challengeBytes                             (7)     *)
(*        n.response = *response                                   (8)     *)
(*        n.used = true                                            (9)     *)
(*        zero n.random ; n.random = nil                           (10,11) *)
(*        cached := n.response ; return &cached                    (12)    *)
(*                                                                         *)
(* Two descriptions live in this module:                                   *)
(*  - the ATOMIC nonce machine  AtomicRespond  (what a caller may rely on; *)
(*    recorded concurrent executions of the real code are linearized       *)
(*    against it by Trace_Nonce), and                                      *)
(*  - the STATEMENT-LEVEL algorithm (one action per numbered statement)    *)
(*    run by P processes through handle copies, with the mutex (WithLock =  *)
(*    TRUE) or with the mutex removed (WithLock = FALSE, the non-vacuity    *)
(*    witness: the invariants below MUST fail).                            *)
(*                                                                         *)
(* Challenges are symbolic; "bad" is a request whose aggregate challenge   *)
(* cannot be computed (mask index outside the key vector): statement (1)   *)
(* returns its error before the nonce is touched.  The response to         *)
(* challenge c under the secret value v of the nonce is the symbolic term  *)
(* <<c, v>> (cryptographic hardness is assumed, not modelled).             *)
(***************************************************************************)
EXTENDS Naturals, Sequences, FiniteSets, TLC, NonceAtomic

(* --------------------- the statement-level algorithm ------------------- *)
CONSTANTS
    Procs,      \* goroutines
    Handles,    \* CosiNonce handle values (copies)
    Nonces,     \* underlying *nonce objects
    NonceOf,    \* [Handles -> Nonces]: which state a handle copy points to
    Calls,      \* [Procs -> Seq([h : Handles, c : challenge])]
    WithLock    \* BOOLEAN: FALSE removes statement (2)

VARIABLES
    pc,         \* [Procs -> statement label]
    ci,         \* [Procs -> index of the current call in Calls[p]]
    cb,         \* [Procs -> local challengeBytes]
    lresp,      \* [Procs -> local response computed by statement (6)]
    holder,     \* [Nonces -> Procs \cup {"none"}]   the mutex
    used, chal, resp,   \* [Nonces -> ...]           fields of *nonce
    random,     \* [Nonces -> "rnd" | "zero" | "nil"] the secret and its pointer
    abs,        \* [Nonces -> atomic machine state]  history: updated at the linearization point (2)
    pred,       \* [Procs -> predicted result of the current call]
    done,       \* [Procs -> Seq([n, c, res, resp, pred])] completed calls
    answered    \* [Nonces -> set of <<challenge, response>> returned to callers]

vars == <<pc, ci, cb, lresp, holder, used, chal, resp, random, abs, pred, done, answered>>

NoneP == "none"
NoResp == <<"-", "-">>

CurCall(p) == Calls[p][ci[p]]
Nn(p) == NonceOf[CurCall(p).h]

Init ==
    /\ pc = [p \in Procs |-> "idle"]
    /\ ci = [p \in Procs |-> 0]
    /\ cb = [p \in Procs |-> NoChal]
    /\ lresp = [p \in Procs |-> NoResp]
    /\ holder = [n \in Nonces |-> NoneP]
    /\ used = [n \in Nonces |-> FALSE]
    /\ chal = [n \in Nonces |-> NoChal]
    /\ resp = [n \in Nonces |-> NoResp]
    /\ random = [n \in Nonces |-> "rnd"]
    /\ abs = [n \in Nonces |-> FreshNonce]
    /\ pred = [p \in Procs |-> "-"]
    /\ done = [p \in Procs |-> <<>>]
    /\ answered = [n \in Nonces |-> {}]

Goto(p, lbl) == pc' = [pc EXCEPT ![p] = lbl]

\* the call returns: record it (and release the mutex: `defer n.Unlock()`)
Return(p, res, r) ==
    LET n == Nn(p) IN
    /\ done' = [done EXCEPT ![p] = Append(@, [n |-> n, c |-> CurCall(p).c, res |-> res, resp |-> r, pred |-> pred[p]])]
    /\ answered' = IF res = "ok" THEN [answered EXCEPT ![n] = @ \cup {<<cb[p], r>>}] ELSE answered
    /\ holder' = IF holder[n] = p THEN [holder EXCEPT ![n] = NoneP] ELSE holder
    /\ Goto(p, "idle")

Begin(p) ==
    /\ pc[p] = "idle" /\ ci[p] < Len(Calls[p])
    /\ ci' = [ci EXCEPT ![p] = @ + 1]
    /\ Goto(p, "s1")
    /\ pred' = [pred EXCEPT ![p] = "-"]
    /\ UNCHANGED <<cb, lresp, holder, used, chal, resp, random, abs, done, answered>>

\* (1) challenge, err := signature.Challenge(publics, message)
S1(p) ==
    /\ pc[p] = "s1"
    /\ IF CurCall(p).c = Bad
       THEN /\ pred' = [pred EXCEPT ![p] = "err"]     \* linearizes here: the nonce is not involved
            /\ done' = [done EXCEPT ![p] = Append(@, [n |-> Nn(p), c |-> Bad, res |-> "err", resp |-> NoResp, pred |-> "err"])]
            /\ Goto(p, "idle")
            /\ UNCHANGED <<cb>>
       ELSE /\ cb' = [cb EXCEPT ![p] = CurCall(p).c]
            /\ Goto(p, "s2")
            /\ UNCHANGED <<pred, done>>
    /\ UNCHANGED <<ci, lresp, holder, used, chal, resp, random, abs, answered>>

\* (2) n.Lock()   -- the linearization point of the call
S2(p) ==
    LET n == Nn(p)  r == AtomicRespond(abs[n], cb[p]) IN
    /\ pc[p] = "s2"
    /\ IF WithLock
       THEN holder[n] = NoneP /\ holder' = [holder EXCEPT ![n] = p]
       ELSE UNCHANGED holder
    /\ abs' = [abs EXCEPT ![n] = r.st]
    /\ pred' = [pred EXCEPT ![p] = r.res]
    /\ Goto(p, "s3")
    /\ UNCHANGED <<ci, cb, lresp, used, chal, resp, random, done, answered>>

\* (3) if n.used
S3(p) ==
    /\ pc[p] = "s3"
    /\ Goto(p, IF used[Nn(p)] THEN "s4" ELSE "s6")
    /\ UNCHANGED <<ci, cb, lresp, holder, used, chal, resp, random, abs, pred, done, answered>>

\* (4) if n.challenge != challengeBytes { return nil, ErrCosiNonceReuse }
S4(p) ==
    /\ pc[p] = "s4"
    /\ IF chal[Nn(p)] # cb[p]
       THEN Return(p, "reuse", NoResp)
       ELSE Goto(p, "s5") /\ UNCHANGED <<done, answered, holder>>
    /\ UNCHANGED <<ci, cb, lresp, used, chal, resp, random, abs, pred>>

\* (5) response := n.response ; return &response, nil
S5(p) ==
    /\ pc[p] = "s5"
    /\ Return(p, "ok", resp[Nn(p)])
    /\ UNCHANGED <<ci, cb, lresp, used, chal, resp, random, abs, pred>>

\* (6) response, err := signature.Response(private, n.random, publics, message)
\*     dereferences n.random: a nil pointer aborts the call (recovered by the caller: "panic")
S6(p) ==
    /\ pc[p] = "s6"
    /\ IF random[Nn(p)] = "nil"
       THEN Return(p, "panic", NoResp) /\ UNCHANGED lresp
       ELSE /\ lresp' = [lresp EXCEPT ![p] = <<cb[p], random[Nn(p)]>>]
            /\ Goto(p, "s7")
            /\ UNCHANGED <<done, answered, holder>>
    /\ UNCHANGED <<ci, cb, used, chal, resp, random, abs, pred>>

\* (7) n.challenge = challengeBytes
S7(p) ==
    /\ pc[p] = "s7"
    /\ chal' = [chal EXCEPT ![Nn(p)] = cb[p]]
    /\ Goto(p, "s8")
    /\ UNCHANGED <<ci, cb, lresp, holder, used, resp, random, abs, pred, done, answered>>

\* (8) n.response = *response
S8(p) ==
    /\ pc[p] = "s8"
    /\ resp' = [resp EXCEPT ![Nn(p)] = lresp[p]]
    /\ Goto(p, "s9")
    /\ UNCHANGED <<ci, cb, lresp, holder, used, chal, random, abs, pred, done, answered>>

\* (9) n.used = true
S9(p) ==
    /\ pc[p] = "s9"
    /\ used' = [used EXCEPT ![Nn(p)] = TRUE]
    /\ Goto(p, "s10")
    /\ UNCHANGED <<ci, cb, lresp, holder, chal, resp, random, abs, pred, done, answered>>

\* (10) for i := range n.random { n.random[i] = 0 }   (nil pointer: abort)
S10(p) ==
    /\ pc[p] = "s10"
    /\ IF random[Nn(p)] = "nil"
       THEN Return(p, "panic", NoResp) /\ UNCHANGED random
       ELSE /\ random' = [random EXCEPT ![Nn(p)] = "zero"]
            /\ Goto(p, "s11")
            /\ UNCHANGED <<done, answered, holder>>
    /\ UNCHANGED <<ci, cb, lresp, used, chal, resp, abs, pred>>

\* (11) n.random = nil
S11(p) ==
    /\ pc[p] = "s11"
    /\ random' = [random EXCEPT ![Nn(p)] = "nil"]
    /\ Goto(p, "s12")
    /\ UNCHANGED <<ci, cb, lresp, holder, used, chal, resp, abs, pred, done, answered>>

\* (12) cached := n.response ; return &cached, nil
S12(p) ==
    /\ pc[p] = "s12"
    /\ Return(p, "ok", resp[Nn(p)])
    /\ UNCHANGED <<ci, cb, lresp, used, chal, resp, random, abs, pred>>

Step(p) == Begin(p) \/ S1(p) \/ S2(p) \/ S3(p) \/ S4(p) \/ S5(p) \/ S6(p) \/ S7(p) \/ S8(p)
           \/ S9(p) \/ S10(p) \/ S11(p) \/ S12(p)

Next == \E p \in Procs : Step(p)

Spec == Init /\ [][Next]_vars

(* ------------------------------ properties ----------------------------- *)
\* C12: a nonce answers at most one challenge over its lifetime ...
OneChallenge == \A n \in Nonces : Cardinality({ a[1] : a \in answered[n] }) <= 1

\* ... repeating that challenge returns the identical response ...
SameResponse == \A n \in Nonces : \A a, b \in answered[n] : a[1] = b[1] => a[2] = b[2]

\* ... which is the genuine response under the nonce's secret (never one computed from a wiped secret)
GenuineResponse == \A n \in Nonces : \A a \in answered[n] : a[2] = <<a[1], "rnd">>

\* ... and every other challenge is refused with the reuse error: each completed call returned what
\* the atomic machine returns at the call's linearization point (mutex acquisition).
Outcome(e) == CASE e.pred \in {"fresh", "cached"} -> e.res = "ok" /\ e.resp = <<e.c, "rnd">>
                [] e.pred = "reuse" -> e.res = "reuse"
                [] e.pred = "err"   -> e.res = "err"
                [] OTHER -> FALSE
Linearizable == \A p \in Procs : \A i \in DOMAIN done[p] : Outcome(done[p][i])

\* key extraction: two answers for different challenges under the same secret give
\*   s1 - s2 = (c1 - c2) * a ; an answer computed from the wiped secret gives  s = c * a.
KeySafe == \A n \in Nonces :
             /\ ~ \E a, b \in answered[n] : a[1] # b[1]
             /\ ~ \E a \in answered[n] : a[2][2] = "zero"

NoPanic == \A p \in Procs : \A i \in DOMAIN done[p] : done[p][i].res # "panic"

MutexInv == WithLock => \A n \in Nonces :
              \A p, q \in Procs :
                 (p # q /\ pc[p] \in {"s3","s4","s5","s6","s7","s8","s9","s10","s11","s12"}
                        /\ pc[q] \in {"s3","s4","s5","s6","s7","s8","s9","s10","s11","s12"})
                 => Nn(p) # Nn(q)

Inv == OneChallenge /\ SameResponse /\ GenuineResponse /\ Linearizable /\ KeySafe /\ NoPanic /\ MutexInv

\* reachability witnesses (must be VIOLATED in a sanity run)
ReachReuse  == ~ \E p \in Procs : \E i \in DOMAIN done[p] : done[p][i].res = "reuse"
ReachCached == ~ \E p \in Procs : \E i \in DOMAIN done[p] : done[p][i].pred = "cached" /\ done[p][i].res = "ok"
=============================================================================
