------------------------------- MODULE AggSig -------------------------------
(***************************************************************************)
(* Aggregate transaction signatures (property C14): crypto/aggregation.go  *)
(*   collectAggregateSigners(publics, signers): signer list non-empty,     *)
(*        strictly increasing, every index inside the key vector; the      *)
(*        transcript is  len | (index_k, key_k) ...                        *)
(*   aggregateWeightedPublicKey: A = sum H(transcript, index, key) * key   *)
(*   AggregateSign(privs, publics, signers, seed, msg)                     *)
(*   AggregateVerify(sig, publics, signers, msg) = A.Verify(msg, sig)      *)
(*                                                                         *)
(* SYMBOLIC model (cryptographic hardness assumed): a signature is a kind  *)
(* plus, for the genuine kind, the transcript and message it was made for. *)
(*   Good       AggregateSign by the private keys of the signing list      *)
(*   TamperedR  / TamperedS / NonCanonS / Garbage : altered bytes          *)
(*   Plain      ordinary Schnorr signature by the plain sum of the signing *)
(*              private keys (the unweighted scheme)                       *)
(*   Rogue      key-cancellation attempt: the last key of the vector is    *)
(*              X - sum of the other keys, the signature is X's own        *)
(*   RogueW     the same against the weighted sum: with the coefficients   *)
(*              c_i computed for a placeholder last key, the last key is   *)
(*              (X - sum c_i A_i) / c_last  (one fixed-point iteration)    *)
(*   RogueC     key cancellation with the coefficient folded in: the key   *)
(*              at index ri of the signing list is  X - sum of the OTHER   *)
(*              selected keys (one or several victims), and the signature  *)
(*              is an ordinary one under the scalar  coef(rc) * x, where   *)
(*              coef(rc) is the weighting coefficient the verifier itself  *)
(*              computes for the selected index rc.  It can verify only if *)
(*              all selected keys share one coefficient.                   *)
(* A case c:                                                               *)
(*   n      number of keys (indices 0..n-1, index n is outside)            *)
(*   ss     signing list (strictly increasing, inside the vector)          *)
(*   vs     signer list given to AggregateVerify (any sequence over 0..n)  *)
(*   sig    kind of the signature                                          *)
(*   vmsg   "same" | "other"                                               *)
(*   vkeys  [op, i, j]: same | swap i j | replace i | truncate | extend    *)
(*   ri, rc abstract indices used by the RogueC kind (0 otherwise)         *)
(***************************************************************************)
EXTENDS Integers, Sequences, FiniteSets

SigKinds == {"Good", "TamperedR", "TamperedS", "NonCanonS", "Garbage", "Plain", "Rogue", "RogueW", "RogueC"}

Foreign == 100
Extra   == 101

Idx(n) == 0 .. (n - 1)

StrictInc(s) == \A k \in 1 .. (Len(s) - 1) : s[k] < s[k + 1]
InRangeSeq(s, len) == \A k \in DOMAIN s : s[k] >= 0 /\ s[k] < len

\* collectAggregateSigners succeeds
SignersOK(s, len) == Len(s) > 0 /\ StrictInc(s) /\ InRangeSeq(s, len)

VKeys(c) ==
    LET base == [k \in 1 .. c.n |-> k - 1] IN
    CASE c.vkeys.op = "swap"     -> [base EXCEPT ![c.vkeys.i + 1] = c.vkeys.j, ![c.vkeys.j + 1] = c.vkeys.i]
      [] c.vkeys.op = "replace"  -> [base EXCEPT ![c.vkeys.i + 1] = Foreign]
      [] c.vkeys.op = "truncate" -> SubSeq(base, 1, c.n - 1)
      [] c.vkeys.op = "extend"   -> Append(base, Extra)
      [] OTHER -> base

\* the data the weighted aggregate key binds: position and key of every signer, in order
Transcript(vk, s) == [k \in DOMAIN s |-> <<s[k], vk[s[k] + 1]>>]

SignOK(c) == SignersOK(c.ss, c.n)

AggVerifyOK(c) ==
    LET vk == VKeys(c) IN
    /\ SignersOK(c.vs, Len(vk))
    /\ c.sig = "Good"
    /\ c.vmsg = "same"
    /\ Transcript(vk, c.vs) = Transcript([k \in 1 .. c.n |-> k - 1], c.ss)

\* The weighting coefficient of a signer is a hash of the whole transcript AND of the signer's own
\* (index, key) pair; symbolically an injective term.  Structural statement: two different (index, key)
\* pairs of one signer set never share a coefficient -- this is what defeats key cancellation.
Coef(tr, idx, key) == <<tr, idx, key>>
CoefficientsDistinct(vk, s) ==
    \A a, b \in DOMAIN s : a # b =>
        Coef(Transcript(vk, s), s[a], vk[s[a] + 1]) # Coef(Transcript(vk, s), s[b], vk[s[b] + 1])

(* ------------------------- the property (C14) -------------------------- *)
Honest(c) == c.sig = "Good" /\ c.vs = c.ss /\ c.vmsg = "same" /\ c.vkeys.op = "same"

\* produced for a sorted signer set => verifies for exactly that vector, set and message
Complete(c, av) == (Honest(c) /\ SignOK(c)) => av

\* verifies only for the signed transcript: any change of a signer's key or position, of the signer
\* list (unsorted, duplicated, out of range, subset, superset) or of the message makes it fail
Sound(c, av) == av => AggVerifyOK(c)

SeqSet(s) == { s[k] : k \in DOMAIN s }

DesignInv(c) ==
    /\ AggVerifyOK(c) => (c.vs = c.ss /\ StrictInc(c.vs) /\ c.vmsg = "same" /\ c.sig = "Good")
    /\ (SignOK(c) /\ Honest(c)) => AggVerifyOK(c)
    /\ (SeqSet(c.ss) # SeqSet(c.vs)) => ~AggVerifyOK(c)          \* subset / superset never verifies
    /\ (c.sig \in {"Rogue", "RogueW", "RogueC", "Plain"}) => ~AggVerifyOK(c)
    /\ (SignOK(c) => CoefficientsDistinct([k \in 1 .. c.n |-> k - 1], c.ss))
    /\ (AggVerifyOK(c) /\ c.vkeys.op \in {"swap", "replace"})    \* only keys of non-signers may change
          => (c.vkeys.i \notin SeqSet(c.ss) /\ (c.vkeys.op = "swap" => c.vkeys.j \notin SeqSet(c.ss)))
=============================================================================
