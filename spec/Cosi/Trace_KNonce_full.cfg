SPECIFICATION Spec
CONSTANTS
  Mode = "full"
  Snaps = {"s1", "s2", "s3"}
  Commits = {"r1", "r2", "r3"}
  Max = 131072
CONSTRAINT HW
INVARIANT Inv
POSTCONDITION Accepted
CHECK_DEADLOCK FALSE
