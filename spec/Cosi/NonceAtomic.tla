---------------------------- MODULE NonceAtomic ----------------------------
(***************************************************************************)
(* The atomic single-use nonce machine (property C12): what a caller of    *)
(* crypto.CosiNonce.Response may rely on.  Nonce.tla shows (TLC, every     *)
(* interleaving) that the mutex-guarded statement-level algorithm          *)
(* implements it; Trace_Nonce linearizes recorded concurrent executions of *)
(* the real code against it; MC_NonceSeq enumerates its transitions for    *)
(* replay.                                                                 *)
(***************************************************************************)
(* ------------------------- the atomic machine ------------------------- *)
Bad == "bad"
NoChal == "-"

FreshNonce == [used |-> FALSE, chal |-> NoChal]

\* res: "err"    the challenge cannot be computed (not the reuse error)
\*      "fresh"  first answer: the nonce becomes bound to c
\*      "cached" identical retry: the stored response is returned again
\*      "reuse"  a different challenge: refused with ErrCosiNonceReuse
AtomicRespond(st, c) ==
    IF c = Bad THEN [st |-> st, res |-> "err"]
    ELSE IF st.used
         THEN IF st.chal = c THEN [st |-> st, res |-> "cached"]
                             ELSE [st |-> st, res |-> "reuse"]
         ELSE [st |-> [used |-> TRUE, chal |-> c], res |-> "fresh"]

=============================================================================
