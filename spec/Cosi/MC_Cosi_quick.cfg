SPECIFICATION Spec
CONSTANTS
  MaxN = 4
  MaxDev = 1
INVARIANT Inv
CHECK_DEADLOCK FALSE
