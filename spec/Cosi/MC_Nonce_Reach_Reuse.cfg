SPECIFICATION Spec
CONSTANTS
  Procs <- ProcsA
  Handles <- HandlesA
  Nonces <- NoncesA
  NonceOf <- NonceOfA
  Calls <- CallsA
  WithLock = TRUE
INVARIANT ReachReuse
CHECK_DEADLOCK FALSE
