SPECIFICATION Spec
CONSTANTS
  MaxN = 4
  MaxLen = 2
INVARIANT ReachVerifies
CHECK_DEADLOCK FALSE
