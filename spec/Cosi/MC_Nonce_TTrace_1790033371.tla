---- MODULE MC_Nonce_TTrace_1790033371 ----
EXTENDS MC_Nonce, Sequences, TLCExt, Toolbox, Naturals, TLC

_expression ==
    LET MC_Nonce_TEExpression == INSTANCE MC_Nonce_TEExpression
    IN MC_Nonce_TEExpression!expression
----

_trace ==
    LET MC_Nonce_TETrace == INSTANCE MC_Nonce_TETrace
    IN MC_Nonce_TETrace!trace
----

_inv ==
    ~(
        TLCGet("level") = Len(_TETrace)
        /\
        answered = ([n1 |-> {<<"c1", <<"c1", "rnd">>>>, <<"c1", <<"c2", "zero">>>>}])
        /\
        resp = ([n1 |-> <<"c2", "zero">>])
        /\
        ci = ([p1 |-> 1, p2 |-> 1, p3 |-> 1])
        /\
        holder = ([n1 |-> "none"])
        /\
        used = ([n1 |-> TRUE])
        /\
        done = ([p1 |-> <<[c |-> "c1", res |-> "ok", resp |-> <<"c2", "zero">>, pred |-> "fresh", n |-> "n1"]>>, p2 |-> <<[c |-> "c1", res |-> "ok", resp |-> <<"c1", "rnd">>, pred |-> "cached", n |-> "n1"]>>, p3 |-> <<>>])
        /\
        random = ([n1 |-> "nil"])
        /\
        pc = ([p1 |-> "idle", p2 |-> "idle", p3 |-> "s9"])
        /\
        abs = ([n1 |-> [used |-> TRUE, chal |-> "c1"]])
        /\
        pred = ([p1 |-> "fresh", p2 |-> "cached", p3 |-> "reuse"])
        /\
        lresp = ([p1 |-> <<"c1", "rnd">>, p2 |-> <<"-", "-">>, p3 |-> <<"c2", "zero">>])
        /\
        chal = ([n1 |-> "c2"])
        /\
        cb = ([p1 |-> "c1", p2 |-> "c1", p3 |-> "c2"])
    )
----

_init ==
    /\ done = _TETrace[1].done
    /\ pred = _TETrace[1].pred
    /\ cb = _TETrace[1].cb
    /\ ci = _TETrace[1].ci
    /\ random = _TETrace[1].random
    /\ resp = _TETrace[1].resp
    /\ pc = _TETrace[1].pc
    /\ holder = _TETrace[1].holder
    /\ abs = _TETrace[1].abs
    /\ chal = _TETrace[1].chal
    /\ used = _TETrace[1].used
    /\ lresp = _TETrace[1].lresp
    /\ answered = _TETrace[1].answered
----

_next ==
    /\ \E i,j \in DOMAIN _TETrace:
        /\ \/ /\ j = i + 1
              /\ i = TLCGet("level")
        /\ done  = _TETrace[i].done
        /\ done' = _TETrace[j].done
        /\ pred  = _TETrace[i].pred
        /\ pred' = _TETrace[j].pred
        /\ cb  = _TETrace[i].cb
        /\ cb' = _TETrace[j].cb
        /\ ci  = _TETrace[i].ci
        /\ ci' = _TETrace[j].ci
        /\ random  = _TETrace[i].random
        /\ random' = _TETrace[j].random
        /\ resp  = _TETrace[i].resp
        /\ resp' = _TETrace[j].resp
        /\ pc  = _TETrace[i].pc
        /\ pc' = _TETrace[j].pc
        /\ holder  = _TETrace[i].holder
        /\ holder' = _TETrace[j].holder
        /\ abs  = _TETrace[i].abs
        /\ abs' = _TETrace[j].abs
        /\ chal  = _TETrace[i].chal
        /\ chal' = _TETrace[j].chal
        /\ used  = _TETrace[i].used
        /\ used' = _TETrace[j].used
        /\ lresp  = _TETrace[i].lresp
        /\ lresp' = _TETrace[j].lresp
        /\ answered  = _TETrace[i].answered
        /\ answered' = _TETrace[j].answered

\* Uncomment the ASSUME below to write the states of the error trace
\* to the given file in Json format. Note that you can pass any tuple
\* to `JsonSerialize`. For example, a sub-sequence of _TETrace.
    \* ASSUME
    \*     LET J == INSTANCE Json
    \*         IN J!JsonSerialize("MC_Nonce_TTrace_1790033371.json", _TETrace)

=============================================================================

 Note that you can extract this module `MC_Nonce_TEExpression`
  to a dedicated file to reuse `expression` (the module in the 
  dedicated `MC_Nonce_TEExpression.tla` file takes precedence 
  over the module `MC_Nonce_TEExpression` below).

---- MODULE MC_Nonce_TEExpression ----
EXTENDS MC_Nonce, Sequences, TLCExt, Toolbox, Naturals, TLC

expression == 
    [
        \* To hide variables of the `MC_Nonce` spec from the error trace,
        \* remove the variables below.  The trace will be written in the order
        \* of the fields of this record.
        done |-> done
        ,pred |-> pred
        ,cb |-> cb
        ,ci |-> ci
        ,random |-> random
        ,resp |-> resp
        ,pc |-> pc
        ,holder |-> holder
        ,abs |-> abs
        ,chal |-> chal
        ,used |-> used
        ,lresp |-> lresp
        ,answered |-> answered
        
        \* Put additional constant-, state-, and action-level expressions here:
        \* ,_stateNumber |-> _TEPosition
        \* ,_doneUnchanged |-> done = done'
        
        \* Format the `done` variable as Json value.
        \* ,_doneJson |->
        \*     LET J == INSTANCE Json
        \*     IN J!ToJson(done)
        
        \* Lastly, you may build expressions over arbitrary sets of states by
        \* leveraging the _TETrace operator.  For example, this is how to
        \* count the number of times a spec variable changed up to the current
        \* state in the trace.
        \* ,_doneModCount |->
        \*     LET F[s \in DOMAIN _TETrace] ==
        \*         IF s = 1 THEN 0
        \*         ELSE IF _TETrace[s].done # _TETrace[s-1].done
        \*             THEN 1 + F[s-1] ELSE F[s-1]
        \*     IN F[_TEPosition - 1]
    ]

=============================================================================



Parsing and semantic processing can take forever if the trace below is long.
 In this case, it is advised to uncomment the module below to deserialize the
 trace from a generated binary file.

\*
\*---- MODULE MC_Nonce_TETrace ----
\*EXTENDS MC_Nonce, IOUtils, TLC
\*
\*trace == IODeserialize("MC_Nonce_TTrace_1790033371.bin", TRUE)
\*
\*=============================================================================
\*

---- MODULE MC_Nonce_TETrace ----
EXTENDS MC_Nonce, TLC

trace == 
    <<
    ([answered |-> [n1 |-> {}],resp |-> [n1 |-> <<"-", "-">>],ci |-> [p1 |-> 0, p2 |-> 0, p3 |-> 0],holder |-> [n1 |-> "none"],used |-> [n1 |-> FALSE],done |-> [p1 |-> <<>>, p2 |-> <<>>, p3 |-> <<>>],random |-> [n1 |-> "rnd"],pc |-> [p1 |-> "idle", p2 |-> "idle", p3 |-> "idle"],abs |-> [n1 |-> [used |-> FALSE, chal |-> "-"]],pred |-> [p1 |-> "-", p2 |-> "-", p3 |-> "-"],lresp |-> [p1 |-> <<"-", "-">>, p2 |-> <<"-", "-">>, p3 |-> <<"-", "-">>],chal |-> [n1 |-> "-"],cb |-> [p1 |-> "-", p2 |-> "-", p3 |-> "-"]]),
    ([answered |-> [n1 |-> {}],resp |-> [n1 |-> <<"-", "-">>],ci |-> [p1 |-> 0, p2 |-> 0, p3 |-> 1],holder |-> [n1 |-> "none"],used |-> [n1 |-> FALSE],done |-> [p1 |-> <<>>, p2 |-> <<>>, p3 |-> <<>>],random |-> [n1 |-> "rnd"],pc |-> [p1 |-> "idle", p2 |-> "idle", p3 |-> "s1"],abs |-> [n1 |-> [used |-> FALSE, chal |-> "-"]],pred |-> [p1 |-> "-", p2 |-> "-", p3 |-> "-"],lresp |-> [p1 |-> <<"-", "-">>, p2 |-> <<"-", "-">>, p3 |-> <<"-", "-">>],chal |-> [n1 |-> "-"],cb |-> [p1 |-> "-", p2 |-> "-", p3 |-> "-"]]),
    ([answered |-> [n1 |-> {}],resp |-> [n1 |-> <<"-", "-">>],ci |-> [p1 |-> 0, p2 |-> 1, p3 |-> 1],holder |-> [n1 |-> "none"],used |-> [n1 |-> FALSE],done |-> [p1 |-> <<>>, p2 |-> <<>>, p3 |-> <<>>],random |-> [n1 |-> "rnd"],pc |-> [p1 |-> "idle", p2 |-> "s1", p3 |-> "s1"],abs |-> [n1 |-> [used |-> FALSE, chal |-> "-"]],pred |-> [p1 |-> "-", p2 |-> "-", p3 |-> "-"],lresp |-> [p1 |-> <<"-", "-">>, p2 |-> <<"-", "-">>, p3 |-> <<"-", "-">>],chal |-> [n1 |-> "-"],cb |-> [p1 |-> "-", p2 |-> "-", p3 |-> "-"]]),
    ([answered |-> [n1 |-> {}],resp |-> [n1 |-> <<"-", "-">>],ci |-> [p1 |-> 1, p2 |-> 1, p3 |-> 1],holder |-> [n1 |-> "none"],used |-> [n1 |-> FALSE],done |-> [p1 |-> <<>>, p2 |-> <<>>, p3 |-> <<>>],random |-> [n1 |-> "rnd"],pc |-> [p1 |-> "s1", p2 |-> "s1", p3 |-> "s1"],abs |-> [n1 |-> [used |-> FALSE, chal |-> "-"]],pred |-> [p1 |-> "-", p2 |-> "-", p3 |-> "-"],lresp |-> [p1 |-> <<"-", "-">>, p2 |-> <<"-", "-">>, p3 |-> <<"-", "-">>],chal |-> [n1 |-> "-"],cb |-> [p1 |-> "-", p2 |-> "-", p3 |-> "-"]]),
    ([answered |-> [n1 |-> {}],resp |-> [n1 |-> <<"-", "-">>],ci |-> [p1 |-> 1, p2 |-> 1, p3 |-> 1],holder |-> [n1 |-> "none"],used |-> [n1 |-> FALSE],done |-> [p1 |-> <<>>, p2 |-> <<>>, p3 |-> <<>>],random |-> [n1 |-> "rnd"],pc |-> [p1 |-> "s2", p2 |-> "s1", p3 |-> "s1"],abs |-> [n1 |-> [used |-> FALSE, chal |-> "-"]],pred |-> [p1 |-> "-", p2 |-> "-", p3 |-> "-"],lresp |-> [p1 |-> <<"-", "-">>, p2 |-> <<"-", "-">>, p3 |-> <<"-", "-">>],chal |-> [n1 |-> "-"],cb |-> [p1 |-> "c1", p2 |-> "-", p3 |-> "-"]]),
    ([answered |-> [n1 |-> {}],resp |-> [n1 |-> <<"-", "-">>],ci |-> [p1 |-> 1, p2 |-> 1, p3 |-> 1],holder |-> [n1 |-> "none"],used |-> [n1 |-> FALSE],done |-> [p1 |-> <<>>, p2 |-> <<>>, p3 |-> <<>>],random |-> [n1 |-> "rnd"],pc |-> [p1 |-> "s3", p2 |-> "s1", p3 |-> "s1"],abs |-> [n1 |-> [used |-> TRUE, chal |-> "c1"]],pred |-> [p1 |-> "fresh", p2 |-> "-", p3 |-> "-"],lresp |-> [p1 |-> <<"-", "-">>, p2 |-> <<"-", "-">>, p3 |-> <<"-", "-">>],chal |-> [n1 |-> "-"],cb |-> [p1 |-> "c1", p2 |-> "-", p3 |-> "-"]]),
    ([answered |-> [n1 |-> {}],resp |-> [n1 |-> <<"-", "-">>],ci |-> [p1 |-> 1, p2 |-> 1, p3 |-> 1],holder |-> [n1 |-> "none"],used |-> [n1 |-> FALSE],done |-> [p1 |-> <<>>, p2 |-> <<>>, p3 |-> <<>>],random |-> [n1 |-> "rnd"],pc |-> [p1 |-> "s6", p2 |-> "s1", p3 |-> "s1"],abs |-> [n1 |-> [used |-> TRUE, chal |-> "c1"]],pred |-> [p1 |-> "fresh", p2 |-> "-", p3 |-> "-"],lresp |-> [p1 |-> <<"-", "-">>, p2 |-> <<"-", "-">>, p3 |-> <<"-", "-">>],chal |-> [n1 |-> "-"],cb |-> [p1 |-> "c1", p2 |-> "-", p3 |-> "-"]]),
    ([answered |-> [n1 |-> {}],resp |-> [n1 |-> <<"-", "-">>],ci |-> [p1 |-> 1, p2 |-> 1, p3 |-> 1],holder |-> [n1 |-> "none"],used |-> [n1 |-> FALSE],done |-> [p1 |-> <<>>, p2 |-> <<>>, p3 |-> <<>>],random |-> [n1 |-> "rnd"],pc |-> [p1 |-> "s7", p2 |-> "s1", p3 |-> "s1"],abs |-> [n1 |-> [used |-> TRUE, chal |-> "c1"]],pred |-> [p1 |-> "fresh", p2 |-> "-", p3 |-> "-"],lresp |-> [p1 |-> <<"c1", "rnd">>, p2 |-> <<"-", "-">>, p3 |-> <<"-", "-">>],chal |-> [n1 |-> "-"],cb |-> [p1 |-> "c1", p2 |-> "-", p3 |-> "-"]]),
    ([answered |-> [n1 |-> {}],resp |-> [n1 |-> <<"-", "-">>],ci |-> [p1 |-> 1, p2 |-> 1, p3 |-> 1],holder |-> [n1 |-> "none"],used |-> [n1 |-> FALSE],done |-> [p1 |-> <<>>, p2 |-> <<>>, p3 |-> <<>>],random |-> [n1 |-> "rnd"],pc |-> [p1 |-> "s8", p2 |-> "s1", p3 |-> "s1"],abs |-> [n1 |-> [used |-> TRUE, chal |-> "c1"]],pred |-> [p1 |-> "fresh", p2 |-> "-", p3 |-> "-"],lresp |-> [p1 |-> <<"c1", "rnd">>, p2 |-> <<"-", "-">>, p3 |-> <<"-", "-">>],chal |-> [n1 |-> "c1"],cb |-> [p1 |-> "c1", p2 |-> "-", p3 |-> "-"]]),
    ([answered |-> [n1 |-> {}],resp |-> [n1 |-> <<"-", "-">>],ci |-> [p1 |-> 1, p2 |-> 1, p3 |-> 1],holder |-> [n1 |-> "none"],used |-> [n1 |-> FALSE],done |-> [p1 |-> <<>>, p2 |-> <<>>, p3 |-> <<>>],random |-> [n1 |-> "rnd"],pc |-> [p1 |-> "s8", p2 |-> "s2", p3 |-> "s1"],abs |-> [n1 |-> [used |-> TRUE, chal |-> "c1"]],pred |-> [p1 |-> "fresh", p2 |-> "-", p3 |-> "-"],lresp |-> [p1 |-> <<"c1", "rnd">>, p2 |-> <<"-", "-">>, p3 |-> <<"-", "-">>],chal |-> [n1 |-> "c1"],cb |-> [p1 |-> "c1", p2 |-> "c1", p3 |-> "-"]]),
    ([answered |-> [n1 |-> {}],resp |-> [n1 |-> <<"c1", "rnd">>],ci |-> [p1 |-> 1, p2 |-> 1, p3 |-> 1],holder |-> [n1 |-> "none"],used |-> [n1 |-> FALSE],done |-> [p1 |-> <<>>, p2 |-> <<>>, p3 |-> <<>>],random |-> [n1 |-> "rnd"],pc |-> [p1 |-> "s9", p2 |-> "s2", p3 |-> "s1"],abs |-> [n1 |-> [used |-> TRUE, chal |-> "c1"]],pred |-> [p1 |-> "fresh", p2 |-> "-", p3 |-> "-"],lresp |-> [p1 |-> <<"c1", "rnd">>, p2 |-> <<"-", "-">>, p3 |-> <<"-", "-">>],chal |-> [n1 |-> "c1"],cb |-> [p1 |-> "c1", p2 |-> "c1", p3 |-> "-"]]),
    ([answered |-> [n1 |-> {}],resp |-> [n1 |-> <<"c1", "rnd">>],ci |-> [p1 |-> 1, p2 |-> 1, p3 |-> 1],holder |-> [n1 |-> "none"],used |-> [n1 |-> FALSE],done |-> [p1 |-> <<>>, p2 |-> <<>>, p3 |-> <<>>],random |-> [n1 |-> "rnd"],pc |-> [p1 |-> "s9", p2 |-> "s3", p3 |-> "s1"],abs |-> [n1 |-> [used |-> TRUE, chal |-> "c1"]],pred |-> [p1 |-> "fresh", p2 |-> "cached", p3 |-> "-"],lresp |-> [p1 |-> <<"c1", "rnd">>, p2 |-> <<"-", "-">>, p3 |-> <<"-", "-">>],chal |-> [n1 |-> "c1"],cb |-> [p1 |-> "c1", p2 |-> "c1", p3 |-> "-"]]),
    ([answered |-> [n1 |-> {}],resp |-> [n1 |-> <<"c1", "rnd">>],ci |-> [p1 |-> 1, p2 |-> 1, p3 |-> 1],holder |-> [n1 |-> "none"],used |-> [n1 |-> FALSE],done |-> [p1 |-> <<>>, p2 |-> <<>>, p3 |-> <<>>],random |-> [n1 |-> "rnd"],pc |-> [p1 |-> "s9", p2 |-> "s3", p3 |-> "s2"],abs |-> [n1 |-> [used |-> TRUE, chal |-> "c1"]],pred |-> [p1 |-> "fresh", p2 |-> "cached", p3 |-> "-"],lresp |-> [p1 |-> <<"c1", "rnd">>, p2 |-> <<"-", "-">>, p3 |-> <<"-", "-">>],chal |-> [n1 |-> "c1"],cb |-> [p1 |-> "c1", p2 |-> "c1", p3 |-> "c2"]]),
    ([answered |-> [n1 |-> {}],resp |-> [n1 |-> <<"c1", "rnd">>],ci |-> [p1 |-> 1, p2 |-> 1, p3 |-> 1],holder |-> [n1 |-> "none"],used |-> [n1 |-> FALSE],done |-> [p1 |-> <<>>, p2 |-> <<>>, p3 |-> <<>>],random |-> [n1 |-> "rnd"],pc |-> [p1 |-> "s9", p2 |-> "s3", p3 |-> "s3"],abs |-> [n1 |-> [used |-> TRUE, chal |-> "c1"]],pred |-> [p1 |-> "fresh", p2 |-> "cached", p3 |-> "reuse"],lresp |-> [p1 |-> <<"c1", "rnd">>, p2 |-> <<"-", "-">>, p3 |-> <<"-", "-">>],chal |-> [n1 |-> "c1"],cb |-> [p1 |-> "c1", p2 |-> "c1", p3 |-> "c2"]]),
    ([answered |-> [n1 |-> {}],resp |-> [n1 |-> <<"c1", "rnd">>],ci |-> [p1 |-> 1, p2 |-> 1, p3 |-> 1],holder |-> [n1 |-> "none"],used |-> [n1 |-> FALSE],done |-> [p1 |-> <<>>, p2 |-> <<>>, p3 |-> <<>>],random |-> [n1 |-> "rnd"],pc |-> [p1 |-> "s9", p2 |-> "s3", p3 |-> "s6"],abs |-> [n1 |-> [used |-> TRUE, chal |-> "c1"]],pred |-> [p1 |-> "fresh", p2 |-> "cached", p3 |-> "reuse"],lresp |-> [p1 |-> <<"c1", "rnd">>, p2 |-> <<"-", "-">>, p3 |-> <<"-", "-">>],chal |-> [n1 |-> "c1"],cb |-> [p1 |-> "c1", p2 |-> "c1", p3 |-> "c2"]]),
    ([answered |-> [n1 |-> {}],resp |-> [n1 |-> <<"c1", "rnd">>],ci |-> [p1 |-> 1, p2 |-> 1, p3 |-> 1],holder |-> [n1 |-> "none"],used |-> [n1 |-> TRUE],done |-> [p1 |-> <<>>, p2 |-> <<>>, p3 |-> <<>>],random |-> [n1 |-> "rnd"],pc |-> [p1 |-> "s10", p2 |-> "s3", p3 |-> "s6"],abs |-> [n1 |-> [used |-> TRUE, chal |-> "c1"]],pred |-> [p1 |-> "fresh", p2 |-> "cached", p3 |-> "reuse"],lresp |-> [p1 |-> <<"c1", "rnd">>, p2 |-> <<"-", "-">>, p3 |-> <<"-", "-">>],chal |-> [n1 |-> "c1"],cb |-> [p1 |-> "c1", p2 |-> "c1", p3 |-> "c2"]]),
    ([answered |-> [n1 |-> {}],resp |-> [n1 |-> <<"c1", "rnd">>],ci |-> [p1 |-> 1, p2 |-> 1, p3 |-> 1],holder |-> [n1 |-> "none"],used |-> [n1 |-> TRUE],done |-> [p1 |-> <<>>, p2 |-> <<>>, p3 |-> <<>>],random |-> [n1 |-> "zero"],pc |-> [p1 |-> "s11", p2 |-> "s3", p3 |-> "s6"],abs |-> [n1 |-> [used |-> TRUE, chal |-> "c1"]],pred |-> [p1 |-> "fresh", p2 |-> "cached", p3 |-> "reuse"],lresp |-> [p1 |-> <<"c1", "rnd">>, p2 |-> <<"-", "-">>, p3 |-> <<"-", "-">>],chal |-> [n1 |-> "c1"],cb |-> [p1 |-> "c1", p2 |-> "c1", p3 |-> "c2"]]),
    ([answered |-> [n1 |-> {}],resp |-> [n1 |-> <<"c1", "rnd">>],ci |-> [p1 |-> 1, p2 |-> 1, p3 |-> 1],holder |-> [n1 |-> "none"],used |-> [n1 |-> TRUE],done |-> [p1 |-> <<>>, p2 |-> <<>>, p3 |-> <<>>],random |-> [n1 |-> "zero"],pc |-> [p1 |-> "s11", p2 |-> "s4", p3 |-> "s6"],abs |-> [n1 |-> [used |-> TRUE, chal |-> "c1"]],pred |-> [p1 |-> "fresh", p2 |-> "cached", p3 |-> "reuse"],lresp |-> [p1 |-> <<"c1", "rnd">>, p2 |-> <<"-", "-">>, p3 |-> <<"-", "-">>],chal |-> [n1 |-> "c1"],cb |-> [p1 |-> "c1", p2 |-> "c1", p3 |-> "c2"]]),
    ([answered |-> [n1 |-> {}],resp |-> [n1 |-> <<"c1", "rnd">>],ci |-> [p1 |-> 1, p2 |-> 1, p3 |-> 1],holder |-> [n1 |-> "none"],used |-> [n1 |-> TRUE],done |-> [p1 |-> <<>>, p2 |-> <<>>, p3 |-> <<>>],random |-> [n1 |-> "zero"],pc |-> [p1 |-> "s11", p2 |-> "s4", p3 |-> "s7"],abs |-> [n1 |-> [used |-> TRUE, chal |-> "c1"]],pred |-> [p1 |-> "fresh", p2 |-> "cached", p3 |-> "reuse"],lresp |-> [p1 |-> <<"c1", "rnd">>, p2 |-> <<"-", "-">>, p3 |-> <<"c2", "zero">>],chal |-> [n1 |-> "c1"],cb |-> [p1 |-> "c1", p2 |-> "c1", p3 |-> "c2"]]),
    ([answered |-> [n1 |-> {}],resp |-> [n1 |-> <<"c1", "rnd">>],ci |-> [p1 |-> 1, p2 |-> 1, p3 |-> 1],holder |-> [n1 |-> "none"],used |-> [n1 |-> TRUE],done |-> [p1 |-> <<>>, p2 |-> <<>>, p3 |-> <<>>],random |-> [n1 |-> "nil"],pc |-> [p1 |-> "s12", p2 |-> "s4", p3 |-> "s7"],abs |-> [n1 |-> [used |-> TRUE, chal |-> "c1"]],pred |-> [p1 |-> "fresh", p2 |-> "cached", p3 |-> "reuse"],lresp |-> [p1 |-> <<"c1", "rnd">>, p2 |-> <<"-", "-">>, p3 |-> <<"c2", "zero">>],chal |-> [n1 |-> "c1"],cb |-> [p1 |-> "c1", p2 |-> "c1", p3 |-> "c2"]]),
    ([answered |-> [n1 |-> {}],resp |-> [n1 |-> <<"c1", "rnd">>],ci |-> [p1 |-> 1, p2 |-> 1, p3 |-> 1],holder |-> [n1 |-> "none"],used |-> [n1 |-> TRUE],done |-> [p1 |-> <<>>, p2 |-> <<>>, p3 |-> <<>>],random |-> [n1 |-> "nil"],pc |-> [p1 |-> "s12", p2 |-> "s5", p3 |-> "s7"],abs |-> [n1 |-> [used |-> TRUE, chal |-> "c1"]],pred |-> [p1 |-> "fresh", p2 |-> "cached", p3 |-> "reuse"],lresp |-> [p1 |-> <<"c1", "rnd">>, p2 |-> <<"-", "-">>, p3 |-> <<"c2", "zero">>],chal |-> [n1 |-> "c1"],cb |-> [p1 |-> "c1", p2 |-> "c1", p3 |-> "c2"]]),
    ([answered |-> [n1 |-> {<<"c1", <<"c1", "rnd">>>>}],resp |-> [n1 |-> <<"c1", "rnd">>],ci |-> [p1 |-> 1, p2 |-> 1, p3 |-> 1],holder |-> [n1 |-> "none"],used |-> [n1 |-> TRUE],done |-> [p1 |-> <<>>, p2 |-> <<[c |-> "c1", res |-> "ok", resp |-> <<"c1", "rnd">>, pred |-> "cached", n |-> "n1"]>>, p3 |-> <<>>],random |-> [n1 |-> "nil"],pc |-> [p1 |-> "s12", p2 |-> "idle", p3 |-> "s7"],abs |-> [n1 |-> [used |-> TRUE, chal |-> "c1"]],pred |-> [p1 |-> "fresh", p2 |-> "cached", p3 |-> "reuse"],lresp |-> [p1 |-> <<"c1", "rnd">>, p2 |-> <<"-", "-">>, p3 |-> <<"c2", "zero">>],chal |-> [n1 |-> "c1"],cb |-> [p1 |-> "c1", p2 |-> "c1", p3 |-> "c2"]]),
    ([answered |-> [n1 |-> {<<"c1", <<"c1", "rnd">>>>}],resp |-> [n1 |-> <<"c1", "rnd">>],ci |-> [p1 |-> 1, p2 |-> 1, p3 |-> 1],holder |-> [n1 |-> "none"],used |-> [n1 |-> TRUE],done |-> [p1 |-> <<>>, p2 |-> <<[c |-> "c1", res |-> "ok", resp |-> <<"c1", "rnd">>, pred |-> "cached", n |-> "n1"]>>, p3 |-> <<>>],random |-> [n1 |-> "nil"],pc |-> [p1 |-> "s12", p2 |-> "idle", p3 |-> "s8"],abs |-> [n1 |-> [used |-> TRUE, chal |-> "c1"]],pred |-> [p1 |-> "fresh", p2 |-> "cached", p3 |-> "reuse"],lresp |-> [p1 |-> <<"c1", "rnd">>, p2 |-> <<"-", "-">>, p3 |-> <<"c2", "zero">>],chal |-> [n1 |-> "c2"],cb |-> [p1 |-> "c1", p2 |-> "c1", p3 |-> "c2"]]),
    ([answered |-> [n1 |-> {<<"c1", <<"c1", "rnd">>>>}],resp |-> [n1 |-> <<"c2", "zero">>],ci |-> [p1 |-> 1, p2 |-> 1, p3 |-> 1],holder |-> [n1 |-> "none"],used |-> [n1 |-> TRUE],done |-> [p1 |-> <<>>, p2 |-> <<[c |-> "c1", res |-> "ok", resp |-> <<"c1", "rnd">>, pred |-> "cached", n |-> "n1"]>>, p3 |-> <<>>],random |-> [n1 |-> "nil"],pc |-> [p1 |-> "s12", p2 |-> "idle", p3 |-> "s9"],abs |-> [n1 |-> [used |-> TRUE, chal |-> "c1"]],pred |-> [p1 |-> "fresh", p2 |-> "cached", p3 |-> "reuse"],lresp |-> [p1 |-> <<"c1", "rnd">>, p2 |-> <<"-", "-">>, p3 |-> <<"c2", "zero">>],chal |-> [n1 |-> "c2"],cb |-> [p1 |-> "c1", p2 |-> "c1", p3 |-> "c2"]]),
    ([answered |-> [n1 |-> {<<"c1", <<"c1", "rnd">>>>, <<"c1", <<"c2", "zero">>>>}],resp |-> [n1 |-> <<"c2", "zero">>],ci |-> [p1 |-> 1, p2 |-> 1, p3 |-> 1],holder |-> [n1 |-> "none"],used |-> [n1 |-> TRUE],done |-> [p1 |-> <<[c |-> "c1", res |-> "ok", resp |-> <<"c2", "zero">>, pred |-> "fresh", n |-> "n1"]>>, p2 |-> <<[c |-> "c1", res |-> "ok", resp |-> <<"c1", "rnd">>, pred |-> "cached", n |-> "n1"]>>, p3 |-> <<>>],random |-> [n1 |-> "nil"],pc |-> [p1 |-> "idle", p2 |-> "idle", p3 |-> "s9"],abs |-> [n1 |-> [used |-> TRUE, chal |-> "c1"]],pred |-> [p1 |-> "fresh", p2 |-> "cached", p3 |-> "reuse"],lresp |-> [p1 |-> <<"c1", "rnd">>, p2 |-> <<"-", "-">>, p3 |-> <<"c2", "zero">>],chal |-> [n1 |-> "c2"],cb |-> [p1 |-> "c1", p2 |-> "c1", p3 |-> "c2"]])
    >>
----


=============================================================================

---- CONFIG MC_Nonce_TTrace_1790033371 ----
CONSTANTS
    Procs <- ProcsA
    Handles <- HandlesA
    Nonces <- NoncesA
    NonceOf <- NonceOfA
    Calls <- CallsA
    WithLock = FALSE

INVARIANT
    _inv

CHECK_DEADLOCK
    \* CHECK_DEADLOCK off because of PROPERTY or INVARIANT above.
    FALSE

INIT
    _init

NEXT
    _next

CONSTANT
    _TETrace <- _trace

ALIAS
    _expression
=============================================================================
\* Generated on Mon Sep 21 23:29:34 UTC 2026