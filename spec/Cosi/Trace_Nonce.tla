----------------------------- MODULE Trace_Nonce -----------------------------
(***************************************************************************)
(* Trace specification for crypto.CosiNonce (engine E2, property C12).     *)
(*                                                                         *)
(* Event lines (NDJSON) recorded from the real code:                       *)
(*  {"ev":"Reset"}                              a new execution: all       *)
(*                                              nonces fresh                *)
(*  {"ev":"Call","p":g,"h":k,"n":i,"c":"cK"}    goroutine g calls          *)
(*        Response through handle copy k of nonce i; "c" is the equality   *)
(*        class of the aggregate challenge of the request ("bad": the      *)
(*        challenge cannot be computed)                                    *)
(*  {"ev":"Ret","p":g,"res":"ok"|"err"|"panic","reuse":b,"r":j,"valid":b}  *)
(*        the call returned; reuse = errors.Is(err, ErrCosiNonceReuse);    *)
(*        r = equality class of the returned response bytes (0: none);     *)
(*        valid = the response passes VerifyResponse for the signer        *)
(*  {"ev":"Obs","extract":b,"pairs":k}          end of the execution:      *)
(*        extract = two returned responses for different challenges of one *)
(*        nonce exist and  (s1 - s2)/(c1 - c2)  IS the signer's private    *)
(*        key (computed by the harness with the real scalars)              *)
(*                                                                         *)
(* Only call and return events are recorded (in real-time order); the      *)
(* internal step Lin(p) applies the atomic machine NonceAtomic at some     *)
(* point between them and TLC searches for an order that explains every    *)
(* returned value.                                                         *)
(*                                                                         *)
(* Mode "full":    every call returns exactly what the atomic machine      *)
(*                 returns, and every returned response is valid.          *)
(* Mode "monitor": exactly what C12 states: per nonce at most one          *)
(*                 challenge is ever answered, an identical retry gets the *)
(*                 identical response, a different challenge is refused    *)
(*                 with the reuse error, and no private key is extractable.*)
(*                 A first request may be refused with an error (stricter  *)
(*                 code) but never aborts; requests with an uncomputable   *)
(*                 challenge may fail in any way.                          *)
(***************************************************************************)
EXTENDS TraceLib, NonceAtomic, FiniteSets

CONSTANTS Mode, Procs, NonceIds

VARIABLES l, N, R, pend
vars == <<l, N, R, pend>>

Idle == [busy |-> FALSE, lin |-> FALSE, n |-> 0, c |-> "-", exp |-> "-"]
NoPend == [p \in Procs |-> Idle]

InitN == [n \in NonceIds |-> FreshNonce]
InitR == [n \in NonceIds |-> 0]

Init == l = 1 /\ N = InitN /\ R = InitR /\ pend = NoPend

Ev == Trace[l]
IsEvent(name) == l <= TraceLen /\ Ev.ev = name /\ l' = l + 1

Reset ==
    /\ IsEvent("Reset")
    /\ N' = InitN /\ R' = InitR /\ pend' = NoPend

Call ==
    /\ IsEvent("Call")
    /\ Ev.p \in Procs /\ Ev.n \in NonceIds
    /\ ~pend[Ev.p].busy
    /\ pend' = [pend EXCEPT ![Ev.p] = [busy |-> TRUE, lin |-> FALSE, n |-> Ev.n, c |-> Ev.c, exp |-> "-"]]
    /\ UNCHANGED <<N, R>>

\* linearization point of a pending call: no trace line is consumed
Lin(p) ==
    /\ pend[p].busy /\ ~pend[p].lin
    /\ LET n == pend[p].n
           r == AtomicRespond(N[n], pend[p].c) IN
         \/ /\ N' = [N EXCEPT ![n] = r.st]
            /\ pend' = [pend EXCEPT ![p].lin = TRUE, ![p].exp = r.res]
         \/ /\ Mode # "full" /\ r.res \in {"fresh", "err"}   \* stricter / unspecified: no effect on the nonce
            /\ N' = N
            /\ pend' = [pend EXCEPT ![p].lin = TRUE,
                                    ![p].exp = IF r.res = "fresh" THEN "declined" ELSE "unspecified"]
    /\ UNCHANGED <<l, R>>

Ret ==
    /\ IsEvent("Ret")
    /\ Ev.p \in Procs
    /\ pend[Ev.p].busy /\ pend[Ev.p].lin
    /\ LET e == pend[Ev.p].exp  n == pend[Ev.p].n IN
         \/ /\ e \in {"fresh", "cached"}
            /\ Ev.res = "ok" /\ Ev.r # 0
            /\ (Mode = "full" => Ev.valid)
            /\ IF R[n] = 0 THEN R' = [R EXCEPT ![n] = Ev.r]
                           ELSE Ev.r = R[n] /\ R' = R
         \/ /\ e = "reuse"
            /\ Ev.res = "err" /\ Ev.reuse
            /\ R' = R
         \/ /\ e = "err"
            /\ Ev.res = "err" /\ ~Ev.reuse
            /\ R' = R
         \/ /\ e = "declined"        \* an orderly refusal of a first request (never an abort)
            /\ Ev.res = "err"
            /\ R' = R
         \/ /\ e = "unspecified"     \* uncomputable challenge: C12 says nothing, but no answer
            /\ Ev.res # "ok"
            /\ R' = R
    /\ pend' = [pend EXCEPT ![Ev.p] = Idle]
    /\ UNCHANGED N

Obs ==
    /\ IsEvent("Obs")
    /\ \A p \in Procs : ~pend[p].busy
    /\ ~Ev.extract
    /\ UNCHANGED <<N, R, pend>>

Next == Reset \/ Call \/ Ret \/ Obs \/ \E p \in Procs : Lin(p)

Spec == Init /\ [][Next]_vars

HW == HighWaterOf(l)
Accepted == TraceAcceptedAt

\* a bound response always belongs to a bound nonce
Inv == \A n \in NonceIds : R[n] # 0 => N[n].used
=============================================================================
