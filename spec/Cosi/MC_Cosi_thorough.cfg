SPECIFICATION Spec
CONSTANTS
  MaxN = 4
  MaxDev = 2
INVARIANT Inv
CHECK_DEADLOCK FALSE
