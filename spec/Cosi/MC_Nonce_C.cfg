SPECIFICATION Spec
CONSTANTS
  Procs <- ProcsA
  Handles <- HandlesC
  Nonces <- NoncesC
  NonceOf <- NonceOfC
  Calls <- CallsC
  WithLock = TRUE
INVARIANT Inv
CHECK_DEADLOCK FALSE
