------------------------------ MODULE MC_Cosi ------------------------------
(* Case space of the collective-signature model (engines E3 and E1, C13):   *)
(* key vectors of 1..MaxN keys, every mask (also with an index outside the   *)
(* vector), every threshold 0..n+1, and up to MaxDev simultaneous deviations *)
(* (share tampering, response-map domain, final-signature forgery shape,     *)
(* verification message, verification key vector).  TLC checks the design    *)
(* theorems on every case and prints every case for the replayer.            *)
EXTENDS Cosi, TLC, Json

CONSTANTS MaxN, MaxDev

VARIABLE c

NoDom == [op |-> "exact", i |-> 0]
FormAgg == [op |-> "agg", i |-> 0]
VSame == [op |-> "same", i |-> 0, j |-> 0]

Tams(cm) == { <<[i |-> i, kind |-> k]>> : i \in cm, k \in Kinds }
            \cup { <<[i |-> p[1], kind |-> "Plus"], [i |-> p[2], kind |-> "Minus"]>> : p \in { q \in cm \X cm : q[1] # q[2] } }
Doms(n, cm) == { [op |-> "missing", i |-> i] : i \in cm } \cup { [op |-> "extra", i |-> i] : i \in Idx(n) \ cm }
Forms(n, cm) == { [op |-> "drop", i |-> i] : i \in cm } \cup { [op |-> "dup", i |-> i] : i \in cm }
                \cup { [op |-> "flip", i |-> i] : i \in 0 .. n }
VMsgs == { "other" }
VKs(n) == { [op |-> "swap", i |-> p[1], j |-> p[2]] : p \in { q \in Idx(n) \X Idx(n) : q[1] < q[2] } }
          \cup { [op |-> "replace", i |-> i, j |-> 0] : i \in Idx(n) }
          \cup { [op |-> "truncate", i |-> 0, j |-> 0], [op |-> "extend", i |-> 0, j |-> 0] }

Mk(n, cm, thr, tam, dom, form, vmsg, vk) ==
    [n |-> n, cm |-> cm, thr |-> thr, tam |-> tam, dom |-> dom, form |-> form, vmsg |-> vmsg, vkeys |-> vk]

Manual(form) == form.op \in {"drop", "dup"}
HasNonCanon(tam) == \E k \in DOMAIN tam : tam[k].kind = "NonCanon"

CasesIn(n, cm) ==
    LET k == Cardinality(cm)
        T2 == {1, k}
    IN
    \* every threshold x every final-signature shape
    { Mk(n, cm, t, <<>>, NoDom, f, "same", VSame) : t \in 0 .. (n + 1), f \in {FormAgg} \cup Forms(n, cm) }
    \* one deviation of another dimension
    \cup { Mk(n, cm, t, x, NoDom, FormAgg, "same", VSame) : t \in T2, x \in Tams(cm) }
    \cup { Mk(n, cm, t, <<>>, x, FormAgg, "same", VSame) : t \in T2, x \in Doms(n, cm) }
    \cup { Mk(n, cm, t, <<>>, NoDom, FormAgg, x, VSame) : t \in T2, x \in VMsgs }
    \cup { Mk(n, cm, t, <<>>, NoDom, FormAgg, "same", x) : t \in T2, x \in VKs(n) }
    \* two deviations
    \cup (IF MaxDev < 2 THEN {} ELSE
          { Mk(n, cm, k, x, y, FormAgg, "same", VSame) : x \in Tams(cm), y \in Doms(n, cm) }
          \cup { Mk(n, cm, k, x, NoDom, y, "same", VSame) : x \in { z \in Tams(cm) : ~HasNonCanon(z) }, y \in Forms(n, cm) }
          \cup { Mk(n, cm, k, x, NoDom, FormAgg, y, VSame) : x \in Tams(cm), y \in VMsgs }
          \cup { Mk(n, cm, k, x, NoDom, FormAgg, "same", y) : x \in Tams(cm), y \in VKs(n) }
          \cup { Mk(n, cm, k, <<>>, x, y, "same", VSame) : x \in Doms(n, cm), y \in { f \in Forms(n, cm) : Manual(f) } }
          \cup { Mk(n, cm, k, <<>>, NoDom, x, y, VSame) : x \in Forms(n, cm), y \in VMsgs }
          \cup { Mk(n, cm, k, <<>>, NoDom, x, "same", y) : x \in Forms(n, cm), y \in VKs(n) }
          \cup { Mk(n, cm, k, <<>>, NoDom, FormAgg, x, y) : x \in VMsgs, y \in VKs(n) })

\* a commitment at an index outside the key vector: nothing can be signed or verified
CasesOut(n, cm) == { Mk(n, cm, t, <<>>, NoDom, FormAgg, "same", VSame) : t \in 0 .. (n + 1) }

Cases == UNION { UNION { IF n \in cm THEN CasesOut(n, cm) ELSE CasesIn(n, cm)
                         : cm \in (SUBSET (0 .. n)) \ {{}} } : n \in 1 .. MaxN }

Init == c \in Cases
Next == UNCHANGED c
Spec == Init /\ [][Next]_c

Inv == DesignInv(c)

\* expected outcomes, printed with the case (the replayer does not use them; the trace spec recomputes them)
EmitCase == PrintT("CASE " \o ToJson(c))

\* reachability witnesses (must be VIOLATED): a compensating pair of tampered shares verifies although
\* strict aggregation rejects it; a swap of two masked keys still verifies
ReachCompensated == ~(FullVerifyOK(c) /\ ~AggregateOK(c, TRUE))
ReachSwapVerifies == ~(FullVerifyOK(c) /\ c.vkeys.op = "swap")
=============================================================================
