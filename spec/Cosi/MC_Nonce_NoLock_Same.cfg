SPECIFICATION Spec
CONSTANTS
  Procs <- ProcsA
  Handles <- HandlesA
  Nonces <- NoncesA
  NonceOf <- NonceOfA
  Calls <- CallsA
  WithLock = FALSE
INVARIANT SameResponse
CHECK_DEADLOCK FALSE
