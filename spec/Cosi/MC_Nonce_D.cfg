SPECIFICATION Spec
CONSTANTS
  Procs <- ProcsD
  Handles <- HandlesD
  Nonces <- NoncesA
  NonceOf <- NonceOfD
  Calls <- CallsD
  WithLock = TRUE
INVARIANT Inv
CHECK_DEADLOCK FALSE
