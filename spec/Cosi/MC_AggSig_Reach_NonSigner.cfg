SPECIFICATION Spec
CONSTANTS
  MaxN = 4
  MaxLen = 2
INVARIANT ReachNonSignerKeyChange
CHECK_DEADLOCK FALSE
