SPECIFICATION Spec
CONSTANTS
  MaxN = 4
  MaxDev = 2
INVARIANT Inv
CONSTRAINT EmitCase
CHECK_DEADLOCK FALSE
