------------------------------ MODULE MC_Nonce ------------------------------
(* Bounded exhaustive configurations of the statement-level nonce algorithm  *)
(* (engine E3, property C12).  Each configuration fixes which goroutine uses *)
(* which handle copy with which challenge; TLC explores every interleaving.  *)
EXTENDS Nonce

C(h, c) == [h |-> h, c |-> c]

\* A: the design's base case -- three goroutines, three copies of one handle, challenges c1 c1 c2
ProcsA == {"p1", "p2", "p3"}
HandlesA == {"h1", "h2", "h3"}
NoncesA == {"n1"}
NonceOfA == [h \in HandlesA |-> "n1"]
CallsA == [p \in ProcsA |-> CASE p = "p1" -> << C("h1", "c1") >>
                              [] p = "p2" -> << C("h2", "c1") >>
                              [] p = "p3" -> << C("h3", "c2") >>]

\* B: retries and refusals after the binding, an uncomputable challenge in between
CallsB == [p \in ProcsA |-> CASE p = "p1" -> << C("h1", "c1"), C("h1", "c2") >>
                              [] p = "p2" -> << C("h2", "c2"), C("h2", "c1") >>
                              [] p = "p3" -> << C("h3", "bad"), C("h3", "c1") >>]

\* C: two nonces, copies of both handles spread over the goroutines
HandlesC == {"h1", "h2", "g1", "g2"}
NoncesC == {"n1", "n2"}
NonceOfC == [h \in HandlesC |-> IF h \in {"h1", "h2"} THEN "n1" ELSE "n2"]
CallsC == [p \in ProcsA |-> CASE p = "p1" -> << C("h1", "c1"), C("g1", "c2") >>
                              [] p = "p2" -> << C("g2", "c1"), C("h2", "c2") >>
                              [] p = "p3" -> << C("h2", "c1"), C("g1", "c1") >>]

\* D (thorough): four goroutines on one nonce
ProcsD == {"p1", "p2", "p3", "p4"}
HandlesD == {"h1", "h2", "h3", "h4"}
NonceOfD == [h \in HandlesD |-> "n1"]
CallsD == [p \in ProcsD |-> CASE p = "p1" -> << C("h1", "c1"), C("h1", "c1") >>
                              [] p = "p2" -> << C("h2", "c2"), C("h2", "c2") >>
                              [] p = "p3" -> << C("h3", "c3"), C("h3", "c1") >>
                              [] p = "p4" -> << C("h4", "c1") >>]
=============================================================================
