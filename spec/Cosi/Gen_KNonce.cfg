SPECIFICATION Spec
CONSTANTS
  Snaps = {"s1", "s2"}
  Commits = {"r1", "r2", "r3"}
  Variants = {"v1", "v2"}
  Max = 10
VIEW View
INVARIANT Inv
ACTION_CONSTRAINT Emit
CHECK_DEADLOCK FALSE
