SPECIFICATION Spec
CONSTANTS
  Procs <- ProcsA
  Handles <- HandlesA
  Nonces <- NoncesA
  NonceOf <- NonceOfA
  Calls <- CallsB
  WithLock = FALSE
INVARIANT KeySafe
CHECK_DEADLOCK FALSE
