SPECIFICATION Spec
CONSTANTS
  MaxN = 4
  MaxLen = 4
INVARIANT Inv
CHECK_DEADLOCK FALSE
