---------------------------- MODULE Trace_AggSig ----------------------------
(***************************************************************************)
(* Trace specification for aggregate transaction signatures (E2, C14).     *)
(* Stateless: every event is one case of MC_AggSig executed on the real    *)
(* code:  {"ev":"Case","c":{case},"sign":b,"av":b,"avpanic":b,"N":len}     *)
(*   sign  AggregateSign succeeded for the sorted signing list             *)
(*   av    AggregateVerify accepted (avpanic: it aborted)                  *)
(*   cdist the coefficients the code computes for the signing list over    *)
(*         the final key vector are pairwise distinct                      *)
(* Mode "full":    outcomes equal the specification's outcomes.            *)
(* Mode "monitor": exactly C14: an honestly produced signature verifies    *)
(*                 for its own vector / signer list / message (Complete),  *)
(*                 and whatever verifies is bound to the signed transcript *)
(*                 and message (Sound); verification never aborts.         *)
(***************************************************************************)
EXTENDS TraceLib, AggSig

CONSTANT Mode

VARIABLE l

Init == l = 1
Next == l <= TraceLen /\ l' = l + 1
Spec == Init /\ [][Next]_l

Full(e) ==
    /\ e.sign = SignOK(e.c)
    /\ e.av = AggVerifyOK(e.c)
    /\ ~e.avpanic
    /\ e.cdist

Monitor(e) ==
    /\ (Honest(e.c) /\ SignOK(e.c)) => e.sign
    /\ Complete(e.c, e.av)
    /\ Sound(e.c, e.av)
    /\ ~e.avpanic
    /\ e.cdist      \* AggSig!CoefficientsDistinct observed on the code's own coefficient function

EventOK(e) == IF Mode = "full" THEN Full(e) ELSE Monitor(e)

Inv == l > 1 => EventOK(Trace[l - 1])

HW == HighWaterOf(l)
Accepted == TraceAcceptedAt
=============================================================================
