-------------------------------- MODULE Cosi --------------------------------
(***************************************************************************)
(* Collective signatures (property C13): crypto/cosi.go                    *)
(*   CosiAggregateCommitment(randoms)            -> R = sum R_i, mask      *)
(*   CosiSignature.Challenge(publics, msg)    -> x = H(R, A(mask), msg)    *)
(*   CosiSignature.Response(a_i, r_i, ...)    -> s_i = x a_i + r_i         *)
(*   CosiSignature.VerifyResponse(publics, i, s_i, msg)                    *)
(*   CosiSignature.AggregateResponse(publics, responses, msg, strict)      *)
(*   CosiSignature.FullVerify(publics, threshold, msg)                     *)
(* and crypto/aggregation.go: aggregatePublicKey / collectAggregateSigners *)
(* (A(mask) = plain sum of the masked keys, indices strictly increasing    *)
(* and inside the key vector).                                             *)
(*                                                                         *)
(* The model is SYMBOLIC: cryptographic hardness is assumed.  A share is a *)
(* pair (signer, kind); kind says how it deviates from the genuine         *)
(* response.  A final signature is valid for (keys, mask, msg) iff         *)
(*   - its R is the sum of the commitments of exactly the masked signers,  *)
(*   - its S is the sum of one share per masked signer, computed for this  *)
(*     very challenge, whose deviations cancel out,                        *)
(*   - the masked verification keys are the signing keys, same message.    *)
(* The Go harness concretizes every kind as a real forgery of that shape.  *)
(*                                                                         *)
(* A case  c  is one complete run:                                         *)
(*   n      number of keys (indices 0..n-1; index n is "outside")          *)
(*   cm     set of indices whose commitments are aggregated (the mask)     *)
(*   tam    sequence of [i, kind]: tampered shares (others are genuine)    *)
(*   dom    [op, i]: domain of the response map given to AggregateResponse *)
(*          exact | missing i (i in cm left out) | extra i (i not in cm)   *)
(*   form   [op, i]: the final signature handed to FullVerify              *)
(*          agg (as aggregated, non strict) | drop i | dup i (share of i   *)
(*          left out of / added twice to the sum) | flip i (mask bit i     *)
(*          toggled after aggregation)                                     *)
(*   thr    threshold                                                      *)
(*   vmsg   "same" | "other"    message used for verification              *)
(*   vkeys  [op, i, j]: key vector used for verification                   *)
(*          same | swap i j | replace i (foreign key) | truncate (last key *)
(*          removed) | extend (one more key appended)                      *)
(***************************************************************************)
EXTENDS Integers, Sequences, FiniteSets

Kinds == {"Plus", "Minus", "WrongKey", "WrongNonce", "WrongMsg", "NonCanon"}
\* Plus/Minus: genuine response +1 / -1 ; WrongKey: computed with another private key ;
\* WrongNonce: with a random that is not the committed one ; WrongMsg: for another message ;
\* NonCanon: the genuine scalar in a non-canonical encoding (s + L)

Foreign == 100      \* a key that is not in the original vector
Extra   == 101

Idx(n) == 0 .. (n - 1)

InRange(mask, len) == \A i \in mask : i < len

KindOf(c, i) == IF \E k \in DOMAIN c.tam : c.tam[k].i = i
                THEN (CHOOSE k \in DOMAIN c.tam : c.tam[k].i = i) \* first match
                ELSE 0
ShareKind(c, i) == IF KindOf(c, i) = 0 THEN "Good" ELSE c.tam[KindOf(c, i)].kind

Delta(kind) == CASE kind = "Plus" -> 1 [] kind = "Minus" -> -1 [] OTHER -> 0
Junk(kind) == kind \in {"WrongKey", "WrongNonce"}     \* never part of a valid signature
\* A share made for the other message is a genuine share of THAT message: if every masked share is of
\* this kind the aggregate is a valid signature of the other message (and of nothing else).

(* ----------------------------- signing side ----------------------------- *)
\* CosiAggregateCommitment: non-empty map, every index below 64 (all modelled indices are)
CommitOK(c) == c.cm # {}

\* Challenge / Response need the aggregate key of the mask over the signing key vector
ChallengeOK(c) == InRange(c.cm, c.n)

\* VerifyResponse(publics, i, share_i, msg)
VerifyResponseOK(c, i) ==
    /\ ChallengeOK(c)
    /\ i \in c.cm
    /\ ShareKind(c, i) = "Good"

\* the response map handed to AggregateResponse
RespDom(c) == CASE c.dom.op = "missing" -> c.cm \ {c.dom.i}
                [] c.dom.op = "extra"   -> c.cm \cup {c.dom.i}
                [] OTHER                -> c.cm

AggregateOK(c, strict) ==
    /\ ChallengeOK(c)
    /\ RespDom(c) = c.cm
    /\ \A i \in c.cm : ShareKind(c, i) # "NonCanon"
    /\ (strict => \A i \in c.cm : ShareKind(c, i) = "Good")

(* ---------------------------- verifying side ---------------------------- *)
\* the final signature: how many times each signer's share is in S, the mask, whether S is set at all
FinalSet(c) == IF c.form.op = "agg" \/ c.form.op = "flip" THEN AggregateOK(c, FALSE) ELSE ChallengeOK(c)

Mult(c, i) == CASE c.form.op = "drop" /\ i = c.form.i -> 0
                [] c.form.op = "dup"  /\ i = c.form.i -> 2
                [] OTHER -> IF i \in c.cm THEN 1 ELSE 0

FinalMask(c) == IF c.form.op = "flip"
                THEN IF c.form.i \in c.cm THEN c.cm \ {c.form.i} ELSE c.cm \cup {c.form.i}
                ELSE c.cm

RECURSIVE SumDelta(_, _)
SumDelta(c, S) == IF S = {} THEN 0
                  ELSE LET i == CHOOSE x \in S : TRUE
                       IN  Mult(c, i) * Delta(ShareKind(c, i)) + SumDelta(c, S \ {i})

\* verification key vector (sequence of key ids; id i = original key i)
VKeys(c) ==
    LET base == [k \in 1 .. c.n |-> k - 1] IN
    CASE c.vkeys.op = "swap"     -> [base EXCEPT ![c.vkeys.i + 1] = c.vkeys.j, ![c.vkeys.j + 1] = c.vkeys.i]
      [] c.vkeys.op = "replace"  -> [base EXCEPT ![c.vkeys.i + 1] = Foreign]
      [] c.vkeys.op = "truncate" -> SubSeq(base, 1, c.n - 1)
      [] c.vkeys.op = "extend"   -> Append(base, Extra)
      [] OTHER -> base

SigValid(c) ==
    LET vk == VKeys(c)  m == FinalMask(c) IN
    /\ FinalSet(c)
    /\ m = c.cm                                             \* R commits to exactly the masked signers
    /\ \A i \in c.cm : Mult(c, i) = 1                       \* one share per masked signer, none else
    /\ \A i \in c.cm : ~Junk(ShareKind(c, i))
    /\ SumDelta(c, c.cm) = 0                                \* deviations cancel
    /\ { vk[i + 1] : i \in m } = c.cm                       \* same aggregate key (plain sum: order-free)
    /\ LET wm == { i \in c.cm : ShareKind(c, i) = "WrongMsg" }   \* every share made for the verified message
       IN  IF c.vmsg = "same" THEN wm = {} ELSE wm = c.cm

FullVerifyOK(c) ==
    LET m == FinalMask(c) IN
    /\ c.thr > 0
    /\ Cardinality(m) >= c.thr
    /\ InRange(m, Len(VKeys(c)))
    /\ SigValid(c)

\* ThresholdVerify(thr) and Keys() of the final value
ThresholdOK(c) == Cardinality(FinalMask(c)) >= c.thr

\* The verdict of FullVerify is a function of (signature bytes, mask, key vector, threshold, message)
\* -- FullVerifyOK(c) above -- and of nothing else: a CosiSignature VALUE that was verified, queried
\* (Keys, ThresholdVerify), aggregated into or copied before its exported fields were rewritten gives
\* the verdict of a fresh value with the same fields.  BackCase(c) is the run in which the final form
\* was verified first and the value then restored to the aggregated signature and mask and verified
\* with the signing key vector and message.
BackCase(c) == [c EXCEPT !.form = [op |-> "agg", i |-> 0], !.vmsg = "same",
                         !.vkeys = [op |-> "same", i |-> 0, j |-> 0]]

(* ------------------------- the property (C13) -------------------------- *)
AllGood(c) == \A i \in c.cm : ShareKind(c, i) = "Good"
Honest(c) == /\ ChallengeOK(c) /\ AllGood(c) /\ c.dom.op = "exact" /\ c.form.op = "agg"
             /\ c.vmsg = "same" /\ c.vkeys.op = "same"

\* (a) valid responses of any masked signer set aggregate (strict or not) into a signature that
\*     verifies against the same key vector, message and any threshold 1..|mask|
Complete(c, vr, aggS, aggN, fv) ==
    Honest(c) => /\ aggS /\ aggN
                 /\ \A i \in c.cm : vr[i + 1]
                 /\ ((c.thr > 0 /\ c.thr <= Cardinality(c.cm)) => fv)

\* (b) a response that does not match its signer is rejected by strict aggregation and by
\*     single-response verification
RejectBadShare(c, vr, aggS) ==
    /\ \A i \in c.cm : (ShareKind(c, i) # "Good" /\ i < c.n) => ~vr[i + 1]
    /\ (\E i \in c.cm : ShareKind(c, i) # "Good") => ~aggS

\* (c) verification succeeds only for a positive threshold within the mask size, a mask inside the
\*     key vector, and a signature made of exactly one valid share per masked signer
Sound(c, fv) == fv => FullVerifyOK(c)

\* design-level theorems checked by TLC over the whole case space
DesignInv(c) ==
    /\ FullVerifyOK(c) => (c.thr > 0 /\ c.thr <= Cardinality(FinalMask(c)) /\ InRange(c.cm, c.n))
    /\ AggregateOK(c, TRUE) => (AllGood(c) /\ AggregateOK(c, FALSE))
    /\ (Honest(c) /\ c.thr > 0 /\ c.thr <= Cardinality(c.cm)) => FullVerifyOK(c)
    /\ (FullVerifyOK(c) /\ c.form.op \in {"drop", "dup"}) => FALSE         \* repeated / missing signer
    /\ (FullVerifyOK(c) /\ c.form.op = "flip") => FALSE                    \* mask changed after signing
    /\ (FullVerifyOK(c) /\ c.vmsg # "same") => \A i \in c.cm : ShareKind(c, i) = "WrongMsg"
    /\ (FullVerifyOK(c) /\ c.vmsg = "same") => \A i \in c.cm : ShareKind(c, i) \in {"Good", "Plus", "Minus"}
=============================================================================
