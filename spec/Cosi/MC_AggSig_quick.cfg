SPECIFICATION Spec
CONSTANTS
  MaxN = 4
  MaxLen = 3
INVARIANT Inv
CHECK_DEADLOCK FALSE
