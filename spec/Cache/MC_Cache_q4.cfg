SPECIFICATION Spec
CONSTANTS
  Payload = {"p1","p2"}
  Variant = {"a","b"}
  None <- NoneV
  Limits = {0,1,2,3}
  MaxQueue = 4
  MaxIds = 5
CONSTRAINT Bound
INVARIANT Inv
PROPERTY StepProp
PROPERTY RequeueWorks
CHECK_DEADLOCK FALSE
