SPECIFICATION Spec
CONSTANTS
  Payload = {"p1","p2"}
  Variant = {"a","b"}
  None <- NoneV
  Limits = {0,1,2,3}
  MaxQueue = 3
  MaxIds = 4
CONSTRAINT Bound
INVARIANT ReachRequeue
CHECK_DEADLOCK FALSE
