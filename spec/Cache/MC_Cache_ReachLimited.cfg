SPECIFICATION Spec
CONSTANTS
  Payload = {"p1","p2"}
  Variant = {"a","b"}
  None <- NoneV
  Limits = {0,1,2,3}
  MaxQueue = 3
  MaxIds = 4
CONSTRAINT Bound
INVARIANT ReachLimited
CHECK_DEADLOCK FALSE
