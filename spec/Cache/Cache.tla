------------------------------- MODULE Cache -------------------------------
(***************************************************************************)
(* The proposal cache of a Mixin Kernel node (property C23).               *)
(* Code: storage/badger_cache.go, three record families in the cache DB:   *)
(*                                                                         *)
(*   body[p]   CACHETRANSACTIONPAYLOAD + hash -> signed envelope           *)
(*   order[p]  CACHETRANSACTIONORDER   + hash -> {}   "p is scheduled"     *)
(*   queue     CACHETRANSACTIONQUEUE + unix-nano + hash -> {}  (key order) *)
(*                                                                         *)
(* One action per storage call (each is one optimistic Badger transaction):*)
(*   Queue(p, v)    CacheQueueTransaction : order record exists => no-op;  *)
(*                  else write order, body (REPLACING the stored envelope) *)
(*                  and a new queue record at the end of the key order     *)
(*   Store(p, v)    CacheStoreTransaction : body absent => write body      *)
(*   Retrieve(l)    CacheRetrieveTransactions(l): scan queue records in    *)
(*                  key order while fewer than l bodies are collected;     *)
(*                  EVERY scanned queue record and the order record of its *)
(*                  payload are deleted; a payload already seen in this    *)
(*                  scan, or without a body, is skipped; bodies are kept   *)
(*   Remove(ps)     CacheRemoveTransactions: delete body and order record  *)
(*                  (the queue record stays and is discarded, or revived   *)
(*                  by a later Store, at the next scan)                    *)
(*   Get(p)         CacheGetTransaction                                    *)
(*                                                                         *)
(* A payload p is a transaction hash; a variant v is one signed envelope   *)
(* of it (same payload hash, different signature section).                 *)
(* TTL expiry (config cache-ttl, 7200 s by default) is not modelled.       *)
(*                                                                         *)
(* The state is a record so that the same operators serve the exhaustive   *)
(* model (MC_Cache), the sequential trace specification and the            *)
(* linearizability trace specification (Trace_Cache).                      *)
(***************************************************************************)
EXTENDS Naturals, Sequences, FiniteSets, TLC

CONSTANTS
    Payload,    \* payload (transaction hash) ids
    Variant,    \* signed-envelope ids
    None,       \* "no body"
    Limits      \* retrieval limits explored

InitState ==
    [ body  |-> [p \in Payload |-> None],
      order |-> [p \in Payload |-> FALSE],
      queue |-> <<>> ]          \* payload of every queue record, in key order

Range(s) == { s[i] : i \in DOMAIN s }
Count(s, p) == Cardinality({ i \in DOMAIN s : s[i] = p })
NoDup(s) == \A i, j \in DOMAIN s : i # j => s[i] # s[j]

Res(ok, r, S) == [ok |-> ok, r |-> r, S |-> S]

(* ---------------------------------------------------------------------- *)
(* Queue: the new queue record is keyed by the wall clock, i.e. it goes to *)
(* the end of the key order in a sequential execution; concurrent callers  *)
(* read the clock before they commit, hence QueueAt with a position.       *)
QueueAt(S, p, v, pos) ==
    IF S.order[p] THEN Res(TRUE, <<>>, S)
    ELSE Res(TRUE, <<>>,
             [S EXCEPT !.order[p] = TRUE,
                       !.body[p]  = v,
                       !.queue    = SubSeq(@, 1, pos - 1) \o <<p>> \o SubSeq(@, pos, Len(@))])

Queue(S, p, v) == QueueAt(S, p, v, Len(S.queue) + 1)

Store(S, p, v) ==
    IF S.body[p] # None THEN Res(TRUE, <<>>, S)
    ELSE Res(TRUE, <<>>, [S EXCEPT !.body[p] = v])

(* The scan of CacheRetrieveTransactions:                                  *)
(*   for ; len(txs) < limit && it.Valid(); it.Next() { processed += key;   *)
(*       if filter[hash] {continue}; filter[hash] = true;                  *)
(*       if body exists { txs += body } }                                  *)
(* Result: n = number of queue records scanned (all deleted), idx = the    *)
(* positions whose payload was returned.                                   *)
RECURSIVE ScanFrom(_, _, _, _, _)
ScanFrom(S, limit, i, idx, seen) ==
    IF Len(idx) >= limit \/ i > Len(S.queue)
    THEN [n |-> i - 1, idx |-> idx]
    ELSE LET p == S.queue[i] IN
         IF p \in seen THEN ScanFrom(S, limit, i + 1, idx, seen)
         ELSE IF S.body[p] = None THEN ScanFrom(S, limit, i + 1, idx, seen \cup {p})
         ELSE ScanFrom(S, limit, i + 1, Append(idx, i), seen \cup {p})

Scan(S, limit) == ScanFrom(S, limit, 1, <<>>, {})

Retrieve(S, limit) ==
    LET sc      == Scan(S, limit)
        scanned == { S.queue[j] : j \in 1..sc.n }
        r       == [j \in 1..Len(sc.idx) |-> [p |-> S.queue[sc.idx[j]], v |-> S.body[S.queue[sc.idx[j]]]]]
    IN  Res(TRUE, r,
            [S EXCEPT !.queue = SubSeq(@, sc.n + 1, Len(@)),
                      !.order = [p \in Payload |-> IF p \in scanned THEN FALSE ELSE @[p]]])

Remove(S, ps) ==
    Res(TRUE, <<>>,
        [S EXCEPT !.body  = [p \in Payload |-> IF p \in Range(ps) THEN None ELSE @[p]],
                  !.order = [p \in Payload |-> IF p \in Range(ps) THEN FALSE ELSE @[p]]])

GetRes(S, p) == IF S.body[p] = None THEN <<>> ELSE <<[p |-> p, v |-> S.body[p]]>>
Get(S, p) == Res(TRUE, GetRes(S, p), S)

(* ---------------------------------------------------------------------- *)
(* Operation records and their uniform application                         *)
RemoveArgs == { s \in UNION { [1..n -> Payload] : n \in 1..Cardinality(Payload) } : NoDup(s) }

Ops == [op : {"Queue", "Store"}, p : Payload, v : Variant]
         \cup [op : {"Retrieve"}, l : Limits]
         \cup [op : {"Remove"}, ps : RemoveArgs]
         \cup [op : {"Get"}, p : Payload]

Apply(S, o) ==
    CASE o.op = "Queue"    -> Queue(S, o.p, o.v)
      [] o.op = "Store"    -> Store(S, o.p, o.v)
      [] o.op = "Retrieve" -> Retrieve(S, o.l)
      [] o.op = "Remove"   -> Remove(S, o.ps)
      [] o.op = "Get"      -> Get(S, o.p)

(* ---------------------------------------------------------------------- *)
(* The property (C23) as predicates.                                       *)

\* p would be returned by a retrieval with a sufficient limit
Eligible(S, p) == p \in Range(S.queue) /\ S.body[p] # None
EligibleSet(S) == { p \in Payload : Eligible(S, p) }

\* what a retrieval of everything returns
RetrieveAll(S) == { x.p : x \in Range(Retrieve(S, Len(S.queue)).r) }

\* the scheduling record never outlives what it schedules
OrderImpliesEligible(S) == \A p \in Payload : S.order[p] => Eligible(S, p)

StateInv(S) ==
    /\ OrderImpliesEligible(S)
    /\ RetrieveAll(S) = EligibleSet(S)         \* eligible <=> retrievable, and eligible => has a queue record

(* Step property for an observed step  S --o / ok, r--> T  : exactly the    *)
(* implications of the statement of C23, independent of the scan ORDER and  *)
(* of what a refused call does.                                             *)
StepOK(S, o, ok, r, T) ==
    \* scheduling records are created by Queue only, for its own payload, one per QUEUEING: queueing a
    \* payload that is already scheduled (order record present) is the same queueing, not a second one
    /\ \A q \in Payload :
          Count(T.queue, q) <= Count(S.queue, q)
                                 + (IF ok /\ o.op = "Queue" /\ o.p = q /\ ~S.order[q] THEN 1 ELSE 0)
    \* ... in particular storing a body alone never schedules anything
    /\ (o.op = "Store" => T.queue = S.queue)
    \* queueing makes the payload eligible (also again, after a retrieval consumed it)
    /\ (ok /\ o.op = "Queue" => Eligible(T, o.p))
    /\ (ok /\ o.op = "Retrieve" =>
          \* no more than the limit, every payload at most once
          /\ Len(r) <= o.l
          /\ NoDup([j \in DOMAIN r |-> r[j].p])
          \* only queued payloads, with the stored body; each return consumes a queueing
          /\ \A j \in DOMAIN r :
                /\ r[j].p \in Payload
                /\ r[j].p \in Range(S.queue)
                /\ r[j].v = S.body[r[j].p]
                /\ Count(T.queue, r[j].p) < Count(S.queue, r[j].p)
          \* retrieval keeps every stored body
          /\ T.body = S.body
          \* a retrieval that did not fill up has returned everything eligible
          /\ (Len(r) < o.l => \A p \in EligibleSet(S) : \E j \in DOMAIN r : r[j].p = p))
    \* removal deletes the body
    /\ (ok /\ o.op = "Remove" => \A p \in Range(o.ps) : T.body[p] = None)
    \* reading returns the stored body and changes nothing
    /\ (ok /\ o.op = "Get" => r = GetRes(S, o.p) /\ T = S)
=============================================================================
