------------------------------ MODULE MC_Cache ------------------------------
(* Exhaustive bounded model of the proposal cache (engine E3) and the edge   *)
(* emitter that feeds the replayer (engine E1).                              *)
(*                                                                           *)
(* History variables give every queue record an identity so that "each       *)
(* queueing is returned by at most one retrieval" is a state invariant:      *)
(*   qid    ids of the queue records, parallel to S.queue                    *)
(*   nid    number of queue records ever created                             *)
(*   retc   id -> number of retrievals that returned this record             *)
(*   everq  payloads that were ever queued                                   *)
EXTENDS Cache, Json

CONSTANTS MaxQueue,   \* bound on the length of the queue (state constraint)
          MaxIds      \* bound on the number of queueings (state constraint)

VARIABLES S, last, qid, nid, retc, everq
vars == <<S, last, qid, nid, retc, everq>>

NoneV == "None"

Init == /\ S = InitState
        /\ last = [o |-> [op |-> "Init"], ok |-> TRUE, r |-> <<>>]
        /\ qid = <<>> /\ nid = 0 /\ retc = <<>> /\ everq = {}

Next == \E o \in Ops :
          LET a == Apply(S, o) IN
            /\ S' = a.S
            /\ last' = [o |-> o, ok |-> a.ok, r |-> a.r]
            /\ IF o.op = "Queue" /\ Len(a.S.queue) > Len(S.queue)
               THEN /\ qid' = Append(qid, nid + 1) /\ nid' = nid + 1
                    /\ retc' = Append(retc, 0) /\ everq' = everq \cup {o.p}
               ELSE IF o.op = "Retrieve"
               THEN LET sc == Scan(S, o.l)
                        back == { qid[sc.idx[j]] : j \in DOMAIN sc.idx } IN
                    /\ qid' = SubSeq(qid, sc.n + 1, Len(qid))
                    /\ retc' = [i \in DOMAIN retc |-> IF i \in back THEN retc[i] + 1 ELSE retc[i]]
                    /\ UNCHANGED <<nid, everq>>
               ELSE UNCHANGED <<qid, nid, retc, everq>>

Spec == Init /\ [][Next]_vars

Bound == Len(S.queue) <= MaxQueue /\ nid <= MaxIds

View == S

TypeOK == /\ S.body \in [Payload -> Variant \cup {None}]
          /\ S.order \in [Payload -> BOOLEAN]
          /\ \A i \in DOMAIN S.queue : S.queue[i] \in Payload
          /\ Len(qid) = Len(S.queue)

\* each queueing (queue record) is returned by at most one retrieval, and a
\* record that was returned is gone
OncePerQueueing == /\ \A i \in DOMAIN retc : retc[i] <= 1
                   /\ \A j \in DOMAIN qid : retc[qid[j]] = 0
                   /\ NoDup(qid)

\* eligible only by queueing (never by storing the body alone)
EligibleOnlyQueued == \A p \in Payload : Eligible(S, p) => p \in everq

Inv == TypeOK /\ StateInv(S) /\ OncePerQueueing /\ EligibleOnlyQueued

\* every step of the specification satisfies the property monitor
StepProp == [][StepOK(S, last'.o, last'.ok, last'.r, S')]_vars

\* a payload queued again after a retrieval consumed its queueing is returned again
RequeueWorks == [][ (last'.o.op = "Queue" /\ ~S.order[last'.o.p]) => Eligible(S', last'.o.p) ]_vars

\* Non-vacuity witnesses: each must be *violated* (i.e. reachable).
\* one payload returned by two retrievals (two queueings)
ReachRequeue == ~(\E i, j \in DOMAIN retc : i # j /\ retc[i] = 1 /\ retc[j] = 1
                    /\ Len(last.r) > 0 /\ \A k \in DOMAIN last.r : last.r[k].p = "p1")
\* a scan that skips a duplicate queue record of a payload it just returned
ReachDupSkip == ~(last.o.op = "Retrieve" /\ Len(last.r) = 1 /\ Len(S.queue) = 0 /\ nid = 2 /\ retc = <<1, 0>>)
\* a stale queue record revived by storing the body again after a removal
ReachRevive == ~(last.o.op = "Store" /\ Eligible(S, last.o.p) /\ ~S.order[last.o.p])
\* a retrieval cut short by its limit
ReachLimited == ~(last.o.op = "Retrieve" /\ Len(last.r) = last.o.l /\ last.o.l > 0 /\ Len(S.queue) > 0)

Emit == PrintT("EDGE " \o ToJson([from |-> S, o |-> last'.o, ok |-> last'.ok, r |-> last'.r, to |-> S']))
=============================================================================
