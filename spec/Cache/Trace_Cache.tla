----------------------------- MODULE Trace_Cache -----------------------------
(***************************************************************************)
(* Trace specification for the proposal cache (engine E2, property C23).   *)
(*                                                                         *)
(* Event lines (NDJSON) written by harness/inpkg/storage/                  *)
(* zz_verif_cache_test.go from the real cache DB of a BadgerStore:         *)
(*   {"ev":"Reset"}                                 start of an execution  *)
(*   {"ev":"Op","o":O,"ok":b,"r":R,"obs":S}         one sequential call,   *)
(*        its real outcome, what it returned, the projected records after  *)
(*   {"ev":"Call","p":i,"o":O}                      goroutine i calls      *)
(*   {"ev":"Ret","p":i,"ok":b,"r":R}                goroutine i returned   *)
(*   {"ev":"Obs","obs":S}                           quiescent read-back    *)
(*   O = {op:"Queue"|"Store",p,v} | {op:"Retrieve",l} | {op:"Remove",ps}   *)
(*       | {op:"Get",p} ;  R = [{p,v},...] ; S = {body,order,queue}        *)
(*                                                                         *)
(* Mode "full": every call behaves exactly like the action of spec/Cache   *)
(*   (result, returned envelopes, records afterwards); concurrent calls    *)
(*   must have a linearization (internal step Lin between Call and Ret);   *)
(*   an optimistic transaction that gave up (ErrConflict after the         *)
(*   retries) is a failed call without effect.                             *)
(* Mode "C23":  only what the statement of C23 says (Cache!StepOK on the   *)
(*   observed records; for concurrent sections the order-free accounting:  *)
(*   a retrieval returns no duplicates, at most its limit, and over the    *)
(*   whole section no payload is returned more often than it has queue     *)
(*   records / Queue calls, the records left at the end included).         *)
(***************************************************************************)
EXTENDS TraceLib, FiniteSets

CONSTANTS Mode, Procs, NoneC

PayloadU == {"p1", "p2", "p3"}
VariantU == {"a", "b"}

C == INSTANCE Cache WITH Payload <- PayloadU, Variant <- VariantU, None <- NoneC, Limits <- 0..3

VARIABLES l, S, pend, nf, cr, rc
vars == <<l, S, pend, nf, cr, rc>>

NoPend == [p \in Procs |-> [busy |-> FALSE, lin |-> FALSE, ok |-> FALSE, r |-> <<>>, o |-> [op |-> "-"]]]
Zero == [p \in PayloadU |-> 0]
Credit(st) == [p \in PayloadU |-> C!Count(st.queue, p)]

Init == l = 1 /\ S = C!InitState /\ pend = NoPend /\ nf = 0 /\ cr = Zero /\ rc = Zero

Ev == Trace[l]
IsEvent(name) == l <= TraceLen /\ Ev.ev = name /\ l' = l + 1

Proj(obs) ==
    [ body  |-> [p \in PayloadU |-> obs.body[p]],
      order |-> [p \in PayloadU |-> obs.order[p]],
      queue |-> obs.queue ]

Quiet == \A p \in Procs : ~pend[p].busy

Reset ==
    /\ IsEvent("Reset")
    /\ S' = C!InitState /\ pend' = NoPend /\ nf' = 0 /\ cr' = Zero /\ rc' = Zero

SeqOp ==
    /\ IsEvent("Op")
    /\ Quiet
    /\ LET o == Ev.o  obs == Proj(Ev.obs) IN
        /\ IF Mode = "full"
           THEN LET a == C!Apply(S, o) IN a.ok = Ev.ok /\ a.r = Ev.r /\ a.S = obs
           ELSE C!StepOK(S, o, Ev.ok, Ev.r, obs)
        /\ S' = obs
        /\ nf' = Len(obs.queue) /\ cr' = Credit(obs) /\ rc' = Zero
    /\ UNCHANGED pend

Call ==
    /\ IsEvent("Call")
    /\ ~pend[Ev.p].busy
    /\ pend' = [pend EXCEPT ![Ev.p] = [busy |-> TRUE, lin |-> FALSE, ok |-> FALSE, r |-> <<>>, o |-> Ev.o]]
    /\ cr' = IF Ev.o.op = "Queue" THEN [cr EXCEPT ![Ev.o.p] = @ + 1] ELSE cr
    /\ UNCHANGED <<S, nf, rc>>

\* The return event of the call goroutine p has pending: the first Ret of p at or after the
\* cursor. Looking at it when choosing the linearization point only prunes the search (a
\* linearization inconsistent with it would be discarded at that Ret anyway).
RECURSIVE FindRet(_, _)
FindRet(p, j) == IF Trace[j].ev = "Ret" /\ Trace[j].p = p THEN j ELSE FindRet(p, j + 1)
RetOf(p) == Trace[FindRet(p, l)]

\* internal linearization point of a pending call (mode "full"); no line is consumed.
\* A queue record written by a concurrent Queue is keyed by the clock value read before the
\* commit: it may sort anywhere among the records written since the last quiescent point.
Lin(p) ==
    /\ Mode = "full"
    /\ pend[p].busy /\ ~pend[p].lin
    /\ LET o == pend[p].o  ret == RetOf(p) IN
         \/ /\ ret.ok
            /\ \E pos \in (IF o.op = "Queue" THEN (nf + 1)..(Len(S.queue) + 1) ELSE {0}) :
                 LET a == IF o.op = "Queue" THEN C!QueueAt(S, o.p, o.v, pos) ELSE C!Apply(S, o) IN
                   /\ a.ok /\ a.r = ret.r
                   /\ S' = a.S
                   /\ pend' = [pend EXCEPT ![p].lin = TRUE, ![p].ok = a.ok, ![p].r = a.r]
                   /\ nf' = IF o.op = "Retrieve"
                            THEN (IF C!Scan(S, o.l).n >= nf THEN 0 ELSE nf - C!Scan(S, o.l).n)
                            ELSE nf
         \/ /\ ~ret.ok /\ o.op # "Get"     \* optimistic transaction gave up: failed no-op
            /\ S' = S /\ nf' = nf
            /\ pend' = [pend EXCEPT ![p].lin = TRUE, ![p].ok = FALSE, ![p].r = <<>>]
    /\ UNCHANGED <<l, cr, rc>>

RetFull ==
    /\ Mode = "full"
    /\ IsEvent("Ret")
    /\ pend[Ev.p].busy /\ pend[Ev.p].lin
    /\ pend[Ev.p].ok = Ev.ok
    /\ (Ev.ok => pend[Ev.p].r = Ev.r)
    /\ pend' = [pend EXCEPT ![Ev.p] = NoPend[Ev.p]]
    /\ UNCHANGED <<S, nf, cr, rc>>

\* order-free accounting of the property for concurrent sections
RetMon ==
    /\ Mode # "full"
    /\ IsEvent("Ret")
    /\ pend[Ev.p].busy
    /\ LET o == pend[Ev.p].o  r == Ev.r
           got(q) == Cardinality({ j \in DOMAIN r : r[j].p = q }) IN
         IF Ev.ok /\ o.op = "Retrieve"
         THEN /\ Len(r) <= o.l
              /\ \A j \in DOMAIN r : r[j].p \in PayloadU
              /\ \A q \in PayloadU : got(q) <= 1
              /\ rc' = [q \in PayloadU |-> rc[q] + got(q)]
              /\ \A q \in PayloadU : rc'[q] <= cr[q]
         ELSE rc' = rc
    /\ pend' = [pend EXCEPT ![Ev.p] = NoPend[Ev.p]]
    /\ UNCHANGED <<S, nf, cr>>

Obs ==
    /\ IsEvent("Obs")
    /\ Quiet
    /\ LET obs == Proj(Ev.obs) IN
        /\ IF Mode = "full"
           THEN obs = S
           ELSE \A q \in PayloadU : C!Count(obs.queue, q) + rc[q] <= cr[q]
        /\ S' = obs /\ nf' = Len(obs.queue) /\ cr' = Credit(obs) /\ rc' = Zero
    /\ UNCHANGED pend

Next == Reset \/ SeqOp \/ Call \/ RetFull \/ RetMon \/ Obs \/ \E p \in Procs : Lin(p)

Spec == Init /\ [][Next]_vars

HW == HighWaterOf(l)
Accepted == TraceAcceptedAt

\* evaluated in every state of every explained execution (mode "full": the specification's
\* state invariant holds along the linearization found)
Inv == Mode = "full" => C!StateInv(S)
=============================================================================
