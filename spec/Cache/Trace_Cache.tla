----------------------------- MODULE Trace_Cache -----------------------------
(***************************************************************************)
(* Trace specification for the proposal cache (engine E2, property C23).   *)
(*                                                                         *)
(* Event lines (NDJSON) written by harness/inpkg/storage/                  *)
(* zz_verif_cache_test.go from the real cache DB of a BadgerStore:         *)
(*   {"ev":"Reset"}                                 start of an execution  *)
(*   {"ev":"Op","o":O,"ok":b,"r":R,"obs":S}         one sequential call,   *)
(*        its real outcome, what it returned, the projected records after  *)
(*   {"ev":"Call","p":i,"o":O}                      goroutine i calls      *)
(*   {"ev":"Ret","p":i,"ok":b,"r":R}                goroutine i returned   *)
(*   {"ev":"Obs","obs":S}                           quiescent read-back    *)
(*   O = {op:"Queue"|"Store",p,v} | {op:"Retrieve",l} | {op:"Remove",ps}   *)
(*       | {op:"Get",p} ;  R = [{p,v},...] ; S = {body,order,queue}        *)
(*                                                                         *)
(* Mode "full": every call behaves exactly like the action of spec/Cache   *)
(*   (result, returned envelopes, records afterwards); concurrent calls    *)
(*   must be explained by internal steps between Call and Ret: one atomic  *)
(*   step Lin for Queue/Store/Remove/Get, snapshot + validated commit for  *)
(*   the multi-key retrieval (Badger's optimistic transactions do not see  *)
(*   or detect queue records inserted after their snapshot); an optimistic *)
(*   transaction that gave up (ErrConflict after the retries) is a failed  *)
(*   call without effect.                                                  *)
(* Mode "C23":  only what the statement of C23 says (Cache!StepOK on the   *)
(*   observed records; for concurrent sections the order-free accounting:  *)
(*   a retrieval returns no duplicates, at most its limit, and over the    *)
(*   whole section no payload is returned more often than it has queue     *)
(*   records / effective queueings (a Queue of an already scheduled        *)
(*   payload is not a new queueing), the records left at the end included).*)
(***************************************************************************)
EXTENDS TraceLib, FiniteSets

CONSTANTS Mode, Procs, NoneC

RECURSIVE SetToSortSeq(_)
SetToSortSeq(X) == IF X = {} THEN <<>> ELSE LET m == CHOOSE x \in X : \A y \in X : x <= y IN <<m>> \o SetToSortSeq(X \ {m})

PayloadU == {"p1", "p2", "p3"}
VariantU == {"a", "b"}

C == INSTANCE Cache WITH Payload <- PayloadU, Variant <- VariantU, None <- NoneC, Limits <- 0..3

VARIABLES l, S, pend, nf, cr, rc, nq, nclr,
          qid,    \* identity of every queue record, parallel to S.queue (concurrent sections, mode "full")
          nid,    \* last identity handed out
          vb      \* version of every body record (bumped by each write or delete)
vars == <<l, S, pend, nf, cr, rc, nq, nclr, qid, nid, vb>>

NoSnap == [q |-> <<>>, i |-> <<>>, b |-> <<>>, v |-> <<>>]
NoPend == [p \in Procs |-> [busy |-> FALSE, lin |-> FALSE, snapped |-> FALSE, ok |-> FALSE, r |-> <<>>,
                            o |-> [op |-> "-"], snap |-> NoSnap]]
Zero == [p \in PayloadU |-> 0]
One == [p \in PayloadU |-> 1]
Min(a, b) == IF a < b THEN a ELSE b
Credit(st) == [p \in PayloadU |-> C!Count(st.queue, p)]
Unscheduled(st) == [p \in PayloadU |-> IF st.order[p] THEN 0 ELSE 1]
Ids(n) == [i \in 1..n |-> i]

Init == /\ l = 1 /\ S = C!InitState /\ pend = NoPend /\ nf = 0 /\ cr = Zero /\ rc = Zero /\ nq = Zero /\ nclr = One
        /\ qid = <<>> /\ nid = 0 /\ vb = Zero

Ev == Trace[l]
IsEvent(name) == l <= TraceLen /\ Ev.ev = name /\ l' = l + 1

Proj(obs) ==
    [ body  |-> [p \in PayloadU |-> obs.body[p]],
      order |-> [p \in PayloadU |-> obs.order[p]],
      queue |-> obs.queue ]

Quiet == \A p \in Procs : ~pend[p].busy

\* at a quiescent point no snapshot is pending: identities and versions are renumbered
Renumber(st) == qid' = Ids(Len(st.queue)) /\ nid' = Len(st.queue) /\ vb' = Zero

Reset ==
    /\ IsEvent("Reset")
    /\ S' = C!InitState /\ pend' = NoPend /\ nf' = 0 /\ cr' = Zero /\ rc' = Zero /\ nq' = Zero /\ nclr' = One
    /\ Renumber(C!InitState)

SeqOp ==
    /\ IsEvent("Op")
    /\ Quiet
    /\ LET o == Ev.o  obs == Proj(Ev.obs) IN
        /\ IF Mode = "full"
           THEN LET a == C!Apply(S, o) IN a.ok = Ev.ok /\ a.r = Ev.r /\ a.S = obs
           ELSE C!StepOK(S, o, Ev.ok, Ev.r, obs)
        /\ S' = obs
        /\ nf' = Len(obs.queue) /\ cr' = Credit(obs) /\ rc' = Zero /\ nq' = Zero /\ nclr' = Unscheduled(obs)
        /\ Renumber(obs)
    /\ UNCHANGED pend

Call ==
    /\ IsEvent("Call")
    /\ ~pend[Ev.p].busy
    /\ pend' = [pend EXCEPT ![Ev.p] = [NoPend[Ev.p] EXCEPT !.busy = TRUE, !.o = Ev.o]]
    \* order-free accounting (mode "C23"): Queue calls of q, and calls that can clear q's order record
    /\ nq' = IF Ev.o.op = "Queue" THEN [nq EXCEPT ![Ev.o.p] = @ + 1] ELSE nq
    /\ nclr' = CASE Ev.o.op = "Retrieve" /\ Ev.o.l > 0 -> [q \in PayloadU |-> nclr[q] + 1]
                  [] Ev.o.op = "Remove" -> [q \in PayloadU |-> IF q \in C!Range(Ev.o.ps) THEN nclr[q] + 1 ELSE nclr[q]]
                  [] OTHER -> nclr
    /\ UNCHANGED <<S, nf, cr, rc, qid, nid, vb>>

\* The return event of the call goroutine p has pending: the first Ret of p at or after the
\* cursor. Looking at it when choosing the linearization point only prunes the search (a
\* linearization inconsistent with it would be discarded at that Ret anyway).
RECURSIVE FindRet(_, _)
FindRet(p, j) == IF Trace[j].ev = "Ret" /\ Trace[j].p = p THEN j ELSE FindRet(p, j + 1)
RetOf(p) == Trace[FindRet(p, l)]

InsertAt(s, pos, x) == SubSeq(s, 1, pos - 1) \o <<x>> \o SubSeq(s, pos, Len(s))
Bump(ps) == [q \in PayloadU |-> IF q \in ps THEN vb[q] + 1 ELSE vb[q]]

(* Concurrent calls, mode "full". The cache functions are optimistic Badger transactions:    *)
(* they read a SNAPSHOT taken when they start and commit later; a commit fails (ErrConflict) *)
(* iff a key it READ was written in between; inserted keys it never saw (phantoms) are not   *)
(* detected. Queue / Store / Remove / Get read at most the single key that decides their     *)
(* outcome, so each is equivalent to one atomic step (Lin) between call and return.          *)
(* CacheRetrieveTransactions reads many keys: it is modelled in two internal steps, Snap     *)
(* (take the snapshot) and Commit (validate what was read, delete what was scanned): queue   *)
(* records inserted after Snap are neither returned nor deleted by that retrieval.           *)
(* A queue record written by a concurrent Queue is keyed by the clock value read before the  *)
(* commit: it may sort anywhere among the records written since the last quiescent point.    *)
Lin(p) ==
    /\ Mode = "full"
    /\ pend[p].busy /\ ~pend[p].lin /\ pend[p].o.op # "Retrieve"
    /\ LET o == pend[p].o  ret == RetOf(p) IN
         \/ /\ ret.ok
            /\ \E pos \in (IF o.op = "Queue" THEN (nf + 1)..(Len(S.queue) + 1) ELSE {0}) :
                 LET a == IF o.op = "Queue" THEN C!QueueAt(S, o.p, o.v, pos) ELSE C!Apply(S, o) IN
                   /\ a.ok /\ a.r = ret.r
                   /\ S' = a.S
                   /\ pend' = [pend EXCEPT ![p].lin = TRUE, ![p].ok = a.ok, ![p].r = a.r]
                   /\ IF o.op = "Queue" /\ Len(a.S.queue) > Len(S.queue)
                      THEN qid' = InsertAt(qid, pos, nid + 1) /\ nid' = nid + 1
                      ELSE UNCHANGED <<qid, nid>>
                   /\ vb' = IF a.S.body = S.body /\ o.op # "Queue" THEN vb
                            ELSE IF o.op = "Remove" THEN Bump(C!Range(o.ps))
                            ELSE IF a.S = S THEN vb ELSE Bump({o.p})
            /\ nf' = nf
         \/ /\ ~ret.ok /\ o.op # "Get"     \* optimistic transaction gave up: failed no-op
            /\ S' = S /\ nf' = nf
            /\ pend' = [pend EXCEPT ![p].lin = TRUE, ![p].ok = FALSE, ![p].r = <<>>]
            /\ UNCHANGED <<qid, nid, vb>>
    /\ UNCHANGED <<l, cr, rc, nq, nclr>>

Snap(p) ==
    /\ Mode = "full"
    /\ pend[p].busy /\ ~pend[p].lin /\ ~pend[p].snapped /\ pend[p].o.op = "Retrieve"
    /\ pend' = [pend EXCEPT ![p].snapped = TRUE,
                            ![p].snap = [q |-> S.queue, i |-> qid, b |-> S.body, v |-> vb]]
    /\ UNCHANGED <<l, S, nf, cr, rc, nq, nclr, qid, nid, vb>>

Commit(p) ==
    /\ Mode = "full"
    /\ pend[p].busy /\ ~pend[p].lin /\ pend[p].snapped
    /\ LET o    == pend[p].o
           sn   == pend[p].snap
           ret  == RetOf(p)
           sc   == C!Scan([body |-> sn.b, order |-> S.order, queue |-> sn.q], o.l)
           sids == { sn.i[j] : j \in 1..sc.n }           \* queue records read (and to delete)
           sps  == { sn.q[j] : j \in 1..sc.n }           \* payloads whose body record was read
           r    == [j \in 1..Len(sc.idx) |-> [p |-> sn.q[sc.idx[j]], v |-> sn.b[sn.q[sc.idx[j]]]]]
           conflict == \/ \E id \in sids : id \notin C!Range(qid)
                       \/ \E q \in sps : vb[q] # sn.v[q]
           keep == { j \in DOMAIN qid : qid[j] \notin sids }
           kseq == SetToSortSeq(keep)
       IN
         \/ /\ ret.ok /\ ~conflict /\ r = ret.r
            /\ S' = [S EXCEPT !.queue = [j \in DOMAIN kseq |-> S.queue[kseq[j]]],
                              !.order = [q \in PayloadU |-> IF q \in sps THEN FALSE ELSE @[q]]]
            /\ qid' = [j \in DOMAIN kseq |-> qid[kseq[j]]]
            /\ nf' = nf - Cardinality({ j \in DOMAIN qid : j <= nf /\ qid[j] \in sids })
            /\ pend' = [pend EXCEPT ![p].lin = TRUE, ![p].ok = TRUE, ![p].r = r]
         \/ /\ ~ret.ok
            /\ S' = S /\ qid' = qid /\ nf' = nf
            /\ pend' = [pend EXCEPT ![p].lin = TRUE, ![p].ok = FALSE, ![p].r = <<>>]
    /\ UNCHANGED <<l, cr, rc, nq, nclr, nid, vb>>

RetFull ==
    /\ Mode = "full"
    /\ IsEvent("Ret")
    /\ pend[Ev.p].busy /\ pend[Ev.p].lin
    /\ pend[Ev.p].ok = Ev.ok
    /\ (Ev.ok => pend[Ev.p].r = Ev.r)
    /\ pend' = [pend EXCEPT ![Ev.p] = NoPend[Ev.p]]
    /\ UNCHANGED <<S, nf, cr, rc, nq, nclr, qid, nid, vb>>

\* order-free accounting of the property for concurrent sections: the queueings of payload q available in
\* a section are the queue records present at its start plus the EFFECTIVE Queue(q) calls; a Queue of an
\* already scheduled payload is the same queueing, so between two effective ones the order record must have
\* been cleared (by a retrieval or a removal of q): effective <= min(#Queue(q) calls, #clearing calls
\* (+1 if q was unscheduled at the start))
Total(q) == cr[q] + Min(nq[q], nclr[q])
RetMon ==
    /\ Mode # "full"
    /\ IsEvent("Ret")
    /\ pend[Ev.p].busy
    /\ LET o == pend[Ev.p].o  r == Ev.r
           got(q) == Cardinality({ j \in DOMAIN r : r[j].p = q }) IN
         IF Ev.ok /\ o.op = "Retrieve"
         THEN /\ Len(r) <= o.l
              /\ \A j \in DOMAIN r : r[j].p \in PayloadU
              /\ \A q \in PayloadU : got(q) <= 1
              /\ rc' = [q \in PayloadU |-> rc[q] + got(q)]
              /\ \A q \in PayloadU : rc'[q] <= Total(q)
         ELSE rc' = rc
    /\ pend' = [pend EXCEPT ![Ev.p] = NoPend[Ev.p]]
    /\ UNCHANGED <<S, nf, cr, nq, nclr, qid, nid, vb>>

Obs ==
    /\ IsEvent("Obs")
    /\ Quiet
    /\ LET obs == Proj(Ev.obs) IN
        /\ IF Mode = "full"
           THEN obs = S
           ELSE \A q \in PayloadU : C!Count(obs.queue, q) + rc[q] <= Total(q)
        /\ S' = obs /\ nf' = Len(obs.queue) /\ cr' = Credit(obs) /\ rc' = Zero /\ nq' = Zero /\ nclr' = Unscheduled(obs)
        /\ Renumber(obs)
    /\ UNCHANGED pend

Next == Reset \/ SeqOp \/ Call \/ RetFull \/ RetMon \/ Obs \/ \E p \in Procs : Lin(p) \/ Snap(p) \/ Commit(p)

Spec == Init /\ [][Next]_vars

HW == HighWaterOf(l)
Accepted == TraceAcceptedAt

\* evaluated in every state of every explained execution (mode "full": the specification's
\* state invariant holds along the linearization found)
Inv == Mode = "full" => C!StateInv(S)
=============================================================================
