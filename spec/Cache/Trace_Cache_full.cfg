SPECIFICATION Spec
CONSTANTS
  Mode = "full"
  Procs = {1,2,3,4}
  NoneC = "None"
CONSTRAINT HW
INVARIANT Inv
POSTCONDITION Accepted
CHECK_DEADLOCK FALSE
