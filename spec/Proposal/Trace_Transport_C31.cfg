SPECIFICATION Spec
CONSTANTS
  Mode = "C31"
  MaxC = 33554432
  CountMaxC = 255
CONSTRAINT HW
INVARIANT Inv
POSTCONDITION Accepted
CHECK_DEADLOCK FALSE
