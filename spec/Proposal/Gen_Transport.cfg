SPECIFICATION Spec
CONSTANTS
  MAX = 48
  COUNTMAX = 255
  Accounting = "signed"
  Ov <- ZeroOv
  QLEN = 9
  Cs = {"t","h"}
INVARIANT Fits
INVARIANT Monotone
CONSTRAINT EmitCase
CHECK_DEADLOCK FALSE
