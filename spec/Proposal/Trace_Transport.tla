--------------------------- MODULE Trace_Transport ---------------------------
(***************************************************************************)
(* Trace specification for C31 (engine E2). Events recorded from the real  *)
(* code by harness/inpkg/kernel/zz_verif_transport_test.go (Batch) and     *)
(* harness/inpkg/p2p/zz_verif_transport_test.go (Built, Frame, BadLimit,   *)
(* Oversize); each line is judged on its own, sizes are REAL bytes:        *)
(*  Limits   {max, ...}              constants of the code under test      *)
(*  Batch    {payload[], validated0, signed[], batch[], res}  one run of   *)
(*           the real popAndProcessCacheQueue over the queued transactions *)
(*  Built    {kind, signed[], len, res [,inner]}  a real message builder   *)
(*           applied to the admitted batch (bundle, bundle+relay,          *)
(*           challenge, fullchallenge)                                     *)
(*  Frame    {size, limit, send, recv, recv_size, same}  one frame through *)
(*           the real Send / receiveWithLimit of a loopback QUIC pair      *)
(*  BadLimit {limit, res}            receiveWithLimit with an illegal limit*)
(*  Oversize {announced_kib, announced_over_max, res, alloc_kib}  a raw    *)
(*           header announcing more than the maximum                       *)
(*                                                                         *)
(* Mode "full": additionally the batch is exactly the one the batcher of   *)
(*   the specification admits (accounting = length of the signed envelope) *)
(*   and message lengths follow the wire grammar.                          *)
(* Mode "C31":  only the statement: every built message fits the maximum   *)
(*   (no abort), framing round-trips exactly, oversized frames are refused *)
(*   before allocation.                                                    *)
(***************************************************************************)
EXTENDS TraceLib, FiniteSets

CONSTANTS Mode, MaxC, CountMaxC

T == INSTANCE Transport WITH MAX <- MaxC, COUNTMAX <- CountMaxC, Accounting <- "signed",
                             Ov <- [tx |-> 4, payload |-> 1, bundle |-> 1, challenge |-> 105, relay |-> 65]

VARIABLE l
vars == <<l>>
Init == l = 1
Next == l <= TraceLen /\ l' = l + 1
Spec == Init /\ [][Next]_vars

RECURSIVE SumSeq(_)
SumSeq(s) == IF s = <<>> THEN 0 ELSE Head(s) + SumSeq(Tail(s))

QueueOf(e) == [i \in DOMAIN e.signed |-> [p |-> e.payload[i], s |-> e.signed[i], b |-> TRUE]]

\* harness indexes are 0-based
BatchOK(e) ==
    /\ e.res = "ok"
    /\ Len(e.batch) <= CountMaxC
    /\ (Mode = "full" =>
          /\ e.validate0 = "ok"
          /\ [i \in DOMAIN e.batch |-> e.batch[i] + 1] = T!Batch(QueueOf(e)))

BuiltOK(e) ==
    /\ e.res = "ok"
    /\ e.len <= MaxC
    /\ (Mode = "full" =>
             CASE e.kind = "bundle"       -> e.len = 2 + 4 * Len(e.signed) + SumSeq(e.signed)
               [] e.kind = "bundle+relay" -> e.len = 65 + e.inner
               [] e.kind = "challenge"    -> e.len = 106 + 4 * Len(e.signed) + SumSeq(e.signed)
               [] OTHER                   -> TRUE)

FrameOK(e) ==
    \* Send accepts only the sizes 1..max, and accepts every such frame the receiver is willing to read
    \* (a receiver that refuses an over-limit header stops reading: the sender of such a frame may time out)
    /\ (e.send = "ok" => T!SendOK(e.size))
    /\ (T!SendOK(e.size) /\ T!RecvOK(e.size, e.limit) => e.send = "ok")
    /\ e.send # "panic"
    \* what was sent within the receiver's limit arrives, byte for byte; beyond the limit it is refused
    /\ (e.send = "ok" /\ T!RecvOK(e.size, e.limit) => e.recv = "ok" /\ e.recv_size = e.size /\ e.same)
    /\ (e.send = "ok" /\ ~T!RecvOK(e.size, e.limit) => e.recv = "err")

BadLimitOK(e) == e.res = "err"

\* refused (an error, promptly) and the announced size was not allocated
OversizeOK(e) ==
    /\ e.announced_over_max
    /\ e.res = "err"
    /\ e.alloc_kib < 16384

EventOK(e) ==
    CASE e.ev = "Limits"   -> e.max = MaxC
      [] e.ev = "Batch"    -> BatchOK(e)
      [] e.ev = "Built"    -> BuiltOK(e)
      [] e.ev = "Frame"    -> FrameOK(e)
      [] e.ev = "BadLimit" -> BadLimitOK(e)
      [] e.ev = "Oversize" -> OversizeOK(e)
      [] OTHER             -> FALSE

Inv == l > 1 => EventOK(Trace[l - 1])

HW == HighWaterOf(l)
Accepted == TraceAcceptedAt
=============================================================================
