SPECIFICATION Spec
CONSTANTS
  Tx <- TxV
  Agg <- AggV
  AggTxs <- AggTxsV
  Gap = 2
  None <- NoneV
  Family = "two"
INVARIANT RequeueAllBreaks
CHECK_DEADLOCK FALSE
