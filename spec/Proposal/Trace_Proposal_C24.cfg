SPECIFICATION Spec
CONSTANTS
  Mode = "C24"
  NoneC = "None"
CONSTRAINT HW
INVARIANT Inv
POSTCONDITION Accepted
CHECK_DEADLOCK FALSE
