SPECIFICATION Spec
CONSTANTS
  Tx <- TxV
  Agg <- AggV
  AggTxs <- AggTxsV
  Gap = 2
  None <- NoneV
  Family = "two"
INVARIANT ReachGuardedFirst
CHECK_DEADLOCK FALSE
