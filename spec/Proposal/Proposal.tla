------------------------------ MODULE Proposal ------------------------------
(***************************************************************************)
(* Retirement of local snapshot proposals (property C24).                  *)
(* Code: kernel/cosi.go  abandonCosiSnapshot, retryCosiSnapshot,           *)
(*       resetCosiStateForNewRound, expireCosiAggregators, the deferral    *)
(*       paths of prepareAnnouncement; kernel/queue.go requeueTransactions.*)
(*                                                                         *)
(* State of the node's own chain as far as retirement is concerned:        *)
(*   agg[a]    = [on, ts, nc, nr]   a in Chain.CosiAggregators, timestamp  *)
(*               of its snapshot, number of commitments and of responses   *)
(*   vs[a]     Chain.CosiVerifiers[snapshot hash of a] is present          *)
(*   owner[t]  the proposal whose verifier is Chain.CosiVerifiers[t]       *)
(*             (written by cosiSendAnnouncement for every transaction of   *)
(*             the installed proposal: the LAST installer owns t)          *)
(*   final[t]  t has a finalization record (persistent store)              *)
(*   pbody[t]  persistent store holds the body of t                        *)
(*   cbody[t]  cache DB holds the body of t                                *)
(*   queued[t] cache DB holds the scheduling records of t (spec/Cache:     *)
(*             order + queue record)                                       *)
(* The transactions of an installed proposal were consumed from the cache  *)
(* queue before (CacheRetrieveTransactions keeps the body).                *)
(*                                                                         *)
(* Time is counted in units of SnapshotRoundGap / Gap.                     *)
(***************************************************************************)
EXTENDS Naturals, Sequences, FiniteSets, TLC

CONSTANTS
    Tx,        \* transactions
    Agg,       \* proposal (aggregator) ids
    AggTxs,    \* [Agg -> Seq(Tx)]  Snapshot.Transactions of the proposal
    Gap,       \* config.SnapshotRoundGap in model time units
    None

Range(s) == { s[i] : i \in DOMAIN s }
TxsOf(a) == Range(AggTxs[a])

HasBody(P, t) == P.pbody[t] \/ P.cbody[t]

\* what one CacheRetrieveTransactions(255) returns
Eligible(P, t) == P.queued[t] /\ P.cbody[t]
EligibleSet(P) == { t \in Tx : Eligible(P, t) }

\* expireCosiAggregators: "once the commitment threshold and every corresponding response
\* have arrived, cosiHandleResponse owns finalization"
Complete(x, base) == x.nc >= base /\ x.nr = x.nc
Expired(x, now) == ~(now < x.ts + Gap)

(* ---------------------------------------------------------------------- *)
(* queue.go requeueTransactions(hashes): per hash, in order: finalized =>   *)
(* skip; body from the persistent store, else from the cache, none => skip; *)
(* CacheQueueTransaction (no-op when already scheduled, otherwise writes    *)
(* scheduling records AND the cache body).                                  *)
RECURSIVE Requeue(_, _)
Requeue(P, ts) ==
    IF ts = <<>> THEN P
    ELSE LET t == Head(ts) IN
         IF P.final[t] \/ ~HasBody(P, t) \/ P.queued[t]
         THEN Requeue(P, Tail(ts))
         ELSE Requeue([P EXCEPT !.queued[t] = TRUE, !.cbody[t] = TRUE], Tail(ts))

(* abandonCosiSnapshot(s): delete the aggregator and the verifier entry of   *)
(* the snapshot hash; delete the entry of each of its transactions only if  *)
(* it still points at THIS proposal's verifier (looked up through the       *)
(* snapshot-hash entry: without that entry the comparison is against nil).  *)
Abandon(P, a) ==
    [P EXCEPT !.agg[a].on = FALSE,
              !.vs[a]     = FALSE,
              !.owner     = [t \in Tx |-> IF t \in TxsOf(a) /\ P.owner[t] = a /\ P.vs[a] THEN None ELSE @[t]]]

(* retryCosiSnapshot(s): requeue only the transactions the retired proposal   *)
(* still owns, or nobody owns (the verifier entry of the transaction is     *)
(* this proposal's verifier or absent), then abandon. A transaction whose   *)
(* entry points at another proposal is left to that proposal.               *)
StillOwn(P, a) == SelectSeq(AggTxs[a], LAMBDA t : P.owner[t] \in {a, None})
RetryOwned(P, a) == Requeue(Abandon(P, a), StillOwn(P, a))

(* The behaviour before the repair a97b75a (DESIGN.md section 7, D9), kept   *)
(* only as a non-vacuity witness of the property: requeue EVERY transaction *)
(* of the snapshot.                                                         *)
RetryAll(P, a) == Requeue(Abandon(P, a), AggTxs[a])

\* owned = TRUE: the specification; owned = FALSE: the witness variant
Retry(P, a, owned) == IF owned THEN RetryOwned(P, a) ELSE RetryAll(P, a)

(* expireCosiAggregators(now): every installed proposal older than the gap  *)
(* that is not complete is retried. The code ranges over a Go map (random   *)
(* order); the result does not depend on the order (checked: ExpireOrderFree)*)
ToExpire(P, now, base) == { a \in Agg : P.agg[a].on /\ Expired(P.agg[a], now) /\ ~Complete(P.agg[a], base) }

RECURSIVE ExpireSeq(_, _, _)
ExpireSeq(P, as, ideal) ==
    IF as = <<>> THEN P ELSE ExpireSeq(Retry(P, Head(as), ideal), Tail(as), ideal)

Perms(S) == { s \in [1..Cardinality(S) -> S] : \A i, j \in DOMAIN s : i # j => s[i] # s[j] }
Expire(P, now, base, ideal) ==
    LET s == CHOOSE s \in Perms(ToExpire(P, now, base)) : TRUE IN ExpireSeq(P, s, ideal)
ExpireOrderFree(P, now, base, ideal) ==
    \A s \in Perms(ToExpire(P, now, base)) : ExpireSeq(P, s, ideal) = Expire(P, now, base, ideal)

(* resetCosiStateForNewRound(owned): collect, de-duplicated, the             *)
(* transactions of all installed proposals that are not in owned; clear     *)
(* both maps; requeue the collected ones.                                   *)
RECURSIVE Collect(_, _, _, _)
Collect(P, as, owned, acc) ==
    IF as = <<>> THEN acc
    ELSE LET a   == Head(as)
             new == SelectSeq(AggTxs[a], LAMBDA t : t \notin owned /\ t \notin Range(acc))
         IN  Collect(P, Tail(as), owned, IF P.agg[a].on THEN acc \o new ELSE acc)

AggOrder == CHOOSE s \in Perms(Agg) : TRUE      \* any order: the result is a set of transactions
Reset(P, owned) ==
    LET retry == Collect(P, AggOrder, owned, <<>>)
        Q     == [P EXCEPT !.agg   = [a \in Agg |-> [@[a] EXCEPT !.on = FALSE]],
                           !.vs    = [a \in Agg |-> FALSE],
                           !.owner = [t \in Tx |-> None]]
    IN  Requeue(Q, retry)

(* prepareAnnouncement deferral (chain not ready, not broadcast, timestamp   *)
(* not after the cache round, no best round, after the round cut-off,       *)
(* another day): the proposal is never installed, its transactions are      *)
(* requeued.                                                                *)
Defer(P, txs) == Requeue(P, txs)

(* cosiSendAnnouncement, duplicate guard: the announcement passed               *)
(* prepareAnnouncement, but at least one transaction of the batch is guarded    *)
(* by the verifier of an installed proposal of the same round that is younger   *)
(* than the gap (the transaction was submitted again while its proposal is in   *)
(* flight). The batch is not installed; every UNGUARDED companion, wherever it  *)
(* stands in the batch, is requeued; guarded members are left to their owner.   *)
Guarded(P, t) == P.owner[t] # None /\ P.agg[P.owner[t]].on
AnnounceEnabled(P, txs) == \E t \in Range(txs) : Guarded(P, t)
Announce(P, txs) == Requeue(P, SelectSeq(txs, LAMBDA t : ~Guarded(P, t)))

(* ---------------------------------------------------------------------- *)
(* Retirement steps as operation records:                                   *)
(*   [op |-> "Expire", now, base] [op |-> "Retry", a] [op |-> "Reset", owned]*)
(*   [op |-> "Defer", txs]  [op |-> "Announce", txs] (duplicate guard)      *)
Apply(P, o, ideal) ==
    CASE o.op = "Expire" -> Expire(P, o.now, o.base, ideal)
      [] o.op = "Retry"  -> Retry(P, o.a, ideal)
      [] o.op = "Reset"  -> Reset(P, Range(o.owned))
      [] o.op = "Defer"  -> Defer(P, o.txs)
      [] o.op = "Announce" -> Announce(P, o.txs)

\* the proposals the step retires
Retired(P, o) ==
    CASE o.op = "Expire" -> ToExpire(P, o.now, o.base)
      [] o.op = "Retry"  -> {o.a}
      [] o.op = "Reset"  -> { a \in Agg : P.agg[a].on }
      [] o.op = "Defer"  -> {}
      [] o.op = "Announce" -> {}

\* the proposals a step retired, as observed: installed before, gone afterwards
RetiredObs(P, Q) == { a \in Agg : P.agg[a].on /\ ~Q.agg[a].on }

\* the transactions of the retired proposal(s) R (for a deferral: of the proposal that was not installed)
RetiredTxsR(o, R) ==
    IF o.op \in {"Defer", "Announce"} THEN Range(o.txs) ELSE UNION { TxsOf(a) : a \in R }
RetiredTxs(P, o) == RetiredTxsR(o, Retired(P, o))

\* t is owned by a proposal that is still active after the step (R = the retired ones)
OwnedByActiveR(P, o, t, R) ==
    IF o.op = "Reset" THEN t \in Range(o.owned)        \* the proposal being installed in the new round
    ELSE /\ P.owner[t] # None
         /\ P.agg[P.owner[t]].on
         /\ P.owner[t] \notin R
OwnedByActive(P, o, t) == OwnedByActiveR(P, o, t, Retired(P, o))

(* C24 for a step  P --o--> Q  that retired the proposals R.                 *)
\* no pending transaction is lost
NoLoss(P, o, Q, R) ==
    \A t \in RetiredTxsR(o, R) :
        (~P.final[t] /\ HasBody(P, t) /\ ~OwnedByActiveR(P, o, t, R)) => Eligible(Q, t)
\* a transaction owned by a still-active proposal is not re-queued by the step
NoRequeueOfOwned(P, o, Q, R) ==
    \A t \in Tx : (OwnedByActiveR(P, o, t, R) /\ ~Eligible(P, t)) => ~Eligible(Q, t)

StepOKR(P, o, Q, R) == NoLoss(P, o, Q, R) /\ NoRequeueOfOwned(P, o, Q, R)
\* "expires after a round gap": an installed proposal strictly older than the gap that is not complete
\* (commitment threshold reached AND every commitment answered) MUST be retired by an expiry step;
\* at exactly ts + gap the statement does not decide (the specification expires it, see Expired)
MustExpire(P, o) ==
    IF o.op = "Expire"
    THEN { a \in Agg : P.agg[a].on /\ o.now > P.agg[a].ts + Gap /\ ~Complete(P.agg[a], o.base) }
    ELSE {}

\* design level: R is what the specification retires
StepOK(P, o, Q) == StepOKR(P, o, Q, Retired(P, o))
\* trace level: R is what was observed to be retired, plus what the statement says must expire (a proposal
\* that stays installed for ever keeps its transactions out of the cache queue: they are lost)
StepOKObs(P, o, Q) == StepOKR(P, o, Q, RetiredObs(P, Q) \cup MustExpire(P, o))

=============================================================================
