SPECIFICATION Spec
CONSTANTS
  Tx <- TxV
  Agg <- AggV
  AggTxs <- AggTxsV
  Gap = 2
  None <- NoneV
  Family = "two"
INVARIANT ReachPartialExpires
CHECK_DEADLOCK FALSE
