--------------------------- MODULE Trace_Proposal ---------------------------
(***************************************************************************)
(* Trace specification for proposal retirement (engine E2, property C24).  *)
(* One line per case executed on a real node by                            *)
(* harness/inpkg/kernel/zz_verif_proposal_test.go:                         *)
(*   {"ev":"Case","pre":P,"o":O,"res":"ok"|"panic","post":Q}               *)
(*   P = maps and stores read back before the step {agg,vs,owner,final,    *)
(*       pbody,cbody,queued}; commitment/response counts and o.base are    *)
(*       the REAL numbers (threshold of the real node)                     *)
(*   Q = the same after the step, "queue" = what one real                  *)
(*       CacheRetrieveTransactions(255) returned as the last step          *)
(*                                                                         *)
(* Mode "full":    Q is exactly what the specification computes, AND the   *)
(*                 property monitor.                                       *)
(* Mode "C24":     only the implications of the statement (StepOKObs: the  *)
(*                 retired proposals are those observed to leave the map). *)
(***************************************************************************)
EXTENDS TraceLib, FiniteSets

CONSTANTS Mode, NoneC

TxU == {"t1", "t2", "t3"}
AggU == {"a1", "a2", "a3"}
AggTxsU == [a \in AggU |-> CASE a = "a1" -> <<"t1", "t2">>
                             [] a = "a2" -> <<"t2", "t3">>
                             [] a = "a3" -> <<"t3", "t1">>]

Pr == INSTANCE Proposal WITH Tx <- TxU, Agg <- AggU, AggTxs <- AggTxsU, Gap <- 2, None <- NoneC

VARIABLE l
vars == <<l>>
Init == l = 1
Next == l <= TraceLen /\ l' = l + 1
Spec == Init /\ [][Next]_vars

PreOf(e) ==
    [ agg    |-> [a \in AggU |-> e.pre.agg[a]],
      vs     |-> [a \in AggU |-> e.pre.vs[a]],
      owner  |-> [t \in TxU |-> e.pre.owner[t]],
      final  |-> [t \in TxU |-> e.pre.final[t]],
      pbody  |-> [t \in TxU |-> e.pre.pbody[t]],
      cbody  |-> [t \in TxU |-> e.pre.cbody[t]],
      queued |-> [t \in TxU |-> e.pre.queued[t]] ]

\* counts and timestamp of a proposal that left the map are not observable: keep the pre values
PostOf(e) ==
    [ agg    |-> [a \in AggU |-> IF e.post.agg[a].on THEN e.post.agg[a]
                                  ELSE [e.pre.agg[a] EXCEPT !.on = FALSE]],
      vs     |-> [a \in AggU |-> e.post.vs[a]],
      owner  |-> [t \in TxU |-> e.post.owner[t]],
      final  |-> [t \in TxU |-> e.post.final[t]],
      pbody  |-> [t \in TxU |-> e.post.pbody[t]],
      cbody  |-> [t \in TxU |-> e.post.cbody[t]],
      queued |-> [t \in TxU |-> t \in SeqToSet(e.post.queue)] ]

EventOK(e) ==
    LET P == PreOf(e)
        Q == PostOf(e)
    IN  /\ e.ev = "Case"
        /\ (Mode = "full" => e.res = "ok" /\ Q = Pr!Apply(P, e.o, TRUE))
        /\ Pr!StepOKObs(P, e.o, Q)

Inv == l > 1 => EventOK(Trace[l - 1])

HW == HighWaterOf(l)
Accepted == TraceAcceptedAt
=============================================================================
