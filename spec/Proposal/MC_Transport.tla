---------------------------- MODULE MC_Transport ----------------------------
(* Scaled decision table for the batcher (engine E3): MAX = 48 units, the    *)
(* envelope cap is 6 units (32 MiB : 4 MiB), queues of up to QLEN            *)
(* transactions of four size classes. With the signed length accounted every *)
(* admitted batch fits; accounting the unsigned payload instead violates     *)
(* BatchFits (witness). The cases are also the queue shapes the harness      *)
(* concretizes (engine E1).                                                  *)
EXTENDS Transport, Json

CONSTANTS QLEN,    \* maximal queue length
          Cs       \* names of the size classes explored

VARIABLE q
vars == <<q>>

\* tiny (payload = envelope, negligible), sig-heavy (small payload, envelope at the cap),
\* fat (payload itself at the cap), middle
Classes == { [c |-> "t", p |-> 0, s |-> 0, b |-> TRUE],
             [c |-> "h", p |-> 0, s |-> 6, b |-> TRUE],
             [c |-> "f", p |-> 6, s |-> 6, b |-> TRUE],
             [c |-> "m", p |-> 1, s |-> 3, b |-> TRUE] }

ZeroOv == [tx |-> 0, payload |-> 0, bundle |-> 0, challenge |-> 0, relay |-> 0]

Init == \E n \in 1..QLEN : q \in [1..n -> { x \in Classes : x.c \in Cs }]
Next == UNCHANGED q
Spec == Init /\ [][Next]_vars

Fits == BatchFits(q)
\* the batch is a prefix-closed choice: once the running sum passed the threshold nothing more is admitted
Monotone == LET idx == Batch(q) IN \A i \in DOMAIN idx : i > 1 => idx[i - 1] < idx[i]

\* shapes for the harness: only the classes it can concretize with real transactions
Shape == [i \in DOMAIN q |-> q[i].c]
\* "cut": the batcher refuses at least one transaction of this queue (the running sum reaches 2/3 MAX)
EmitCase == (\A i \in DOMAIN q : q[i].c \in {"t", "h"}) =>
              PrintT("CASE " \o ToJson([shape |-> Shape, cut |-> Len(Batch(q)) < Len(q), n |-> Len(q)]))
=============================================================================
