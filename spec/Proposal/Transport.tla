------------------------------ MODULE Transport ------------------------------
(***************************************************************************)
(* Batch size accounting and message lengths (property C31).               *)
(* Code: kernel/queue.go popAndProcessCacheQueue (the batcher),            *)
(*       p2p/handle.go buildTransactionsPayload / buildTransactionsMessage *)
(*       / buildBatchTransactionChallengeMessage / buildRelayMessage,      *)
(*       p2p/quic.go Send / receiveWithLimit (framing).                    *)
(*                                                                         *)
(* A queued transaction is a record [p, s, b]: p = length of the unsigned  *)
(* payload, s = length of the signed envelope (what the batcher accounts   *)
(* and what a bundle carries, capped at 4 MiB by the codec),               *)
(* b = batchable type.                                                     *)
(***************************************************************************)
EXTENDS Naturals, Sequences, FiniteSets, TLC

CONSTANTS
    MAX,          \* p2p.TransportMessageMaxSize
    COUNTMAX,     \* common.SnapshotTransactionsMaximum
    Accounting,   \* "signed": batchSize += len(tx.Marshal()) (the code) ; "payload": += ValidatedSize(), the
                  \* accounting before the repair 3287b3f, kept as a non-vacuity witness
    Ov            \* fixed overheads in bytes [tx, payload, bundle, challenge, relay] (all 0 in the scaled model)

Accounted(x) == IF Accounting = "signed" THEN x.s ELSE x.p

\* batchSize += len(tx.Marshal()); if tx.IsSnapshotBatchable() && batchSize < MAX*2/3 { batch += tx }
\* (the running sum counts every admissible transaction of the retrieval, batched or not)
Threshold == (MAX * 2) \div 3
RECURSIVE BatchFrom(_, _, _, _)
BatchFrom(q, i, sum, acc) ==
    IF i > Len(q) THEN acc
    ELSE LET ns == sum + Accounted(q[i]) IN
         BatchFrom(q, i + 1, ns, IF q[i].b /\ ns < Threshold THEN Append(acc, i) ELSE acc)
Batch(q) == BatchFrom(q, 1, 0, <<>>)        \* indexes of q admitted to the batch

RECURSIVE SumS(_, _)
SumS(q, idx) == IF idx = <<>> THEN 0 ELSE q[Head(idx)].s + SumS(q, Tail(idx))

\* buildTransactionsPayload: count byte, then per transaction a 4-byte length and the envelope
\* (real overheads: Ov = [tx |-> 4, payload |-> 1, bundle |-> 1, challenge |-> 105, relay |-> 65])
PayloadLen(q, idx) == Ov.payload + Ov.tx * Len(idx) + SumS(q, idx)
BundleLen(q, idx) == Ov.bundle + PayloadLen(q, idx)          \* buildTransactionsMessage: type byte
ChallengeLen(q, idx) == Ov.challenge + PayloadLen(q, idx)    \* type, snapshot hash, signature, mask
RelayLen(inner) == Ov.relay + inner                          \* buildRelayMessage: type, from, to
RealOv == [tx |-> 4, payload |-> 1, bundle |-> 1, challenge |-> 105, relay |-> 65]

\* C31 for the batcher: what carries the admitted batch fits the transport maximum
BatchFits(q) ==
    LET idx == Batch(q) IN
      /\ Len(idx) <= COUNTMAX
      /\ RelayLen(BundleLen(q, idx)) <= MAX
      /\ ChallengeLen(q, idx) <= MAX

\* framing: Send accepts exactly 1..MAX bytes; a frame is received iff its size is within the limit
SendOK(n) == n >= 1 /\ n <= MAX
RecvOK(n, limit) == n <= limit
LimitOK(limit) == limit >= 1 /\ limit <= MAX
=============================================================================
