SPECIFICATION Spec
CONSTANTS
  MAX = 48
  COUNTMAX = 255
  Accounting = "signed"
  Ov <- ZeroOv
  QLEN = 7
  Cs = {"t","h","f","m"}
INVARIANT Fits
INVARIANT Monotone
CHECK_DEADLOCK FALSE
