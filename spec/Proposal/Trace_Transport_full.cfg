SPECIFICATION Spec
CONSTANTS
  Mode = "full"
  MaxC = 33554432
  CountMaxC = 255
CONSTRAINT HW
INVARIANT Inv
POSTCONDITION Accepted
CHECK_DEADLOCK FALSE
