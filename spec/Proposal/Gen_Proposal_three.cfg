SPECIFICATION Spec
CONSTANTS
  Tx <- TxV
  Agg <- AggV
  AggTxs <- AggTxsV
  Gap = 2
  None <- NoneV
  Family = "three"
INVARIANT PropertyHolds
INVARIANT OrderFree
CONSTRAINT EmitCase
CHECK_DEADLOCK FALSE
