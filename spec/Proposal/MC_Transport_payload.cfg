SPECIFICATION Spec
CONSTANTS
  MAX = 48
  COUNTMAX = 255
  Accounting = "payload"
  Ov <- ZeroOv
  QLEN = 9
  Cs = {"t","h"}
INVARIANT Fits
CHECK_DEADLOCK FALSE
