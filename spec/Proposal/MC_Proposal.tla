---------------------------- MODULE MC_Proposal ----------------------------
(* Bounded exhaustive check of proposal retirement (engine E3) as a decision *)
(* table: every well-formed pre-state of a family x every retirement step.   *)
(* The same module emits the cases the Go harness builds on a real node (E1).*)
EXTENDS Proposal, Json

CONSTANTS Family      \* "two" | "three"   which proposals may be installed

VARIABLE c
vars == <<c>>

NoneV == "None"
TxV == {"t1", "t2", "t3"}
AggV == {"a1", "a2", "a3"}
AggTxsV == [a \in AggV |-> CASE a = "a1" -> <<"t1", "t2">>
                             [] a = "a2" -> <<"t2", "t3">>
                             [] a = "a3" -> <<"t3", "t1">>]
Base == 2          \* model commitment threshold; the harness maps nc, nr to the real threshold

Off == [on |-> FALSE, ts |-> 0, nc |-> 0, nr |-> 0]
\* <<commitments, responses>> relative to Base: below the threshold / threshold reached and no response
\* yet / threshold reached, some but not all responses / complete. The harness maps commitments 1 -> real
\* threshold - 1, 2 -> real threshold; responses 0 -> 0, = commitments -> all, otherwise -> all but one.
Progress == IF Family = "two" THEN {<<1, 1>>, <<2, 0>>, <<2, 1>>, <<2, 2>>} ELSE {<<1, 0>>, <<2, 1>>, <<2, 2>>}
OnTimed == { [on |-> TRUE, ts |-> ts, nc |-> pr[1], nr |-> pr[2]] : ts \in {0, 1}, pr \in Progress }
OnPlain == { [on |-> TRUE, ts |-> 0, nc |-> 1, nr |-> 1] }

Usable == IF Family = "two" THEN {"a1", "a2"} ELSE AggV

AggMaps(onset) == { m \in [AggV -> {Off} \cup onset] : \A a \in AggV \ Usable : m[a] = Off }

Owners(m) == { w \in [TxV -> AggV \cup {NoneV}] :
                 \A t \in TxV : w[t] # NoneV => (m[w[t]].on /\ t \in Range(AggTxsV[w[t]])) }

\* transaction classes: none = no body anywhere; c = cache body (consumed from the queue);
\* cq = cache body and scheduled; p = body in the persistent store, unfinalized; pf = finalized
Cls == IF Family = "two"
       THEN [t1 : {"c", "pf"}, t2 : {"none", "c", "cq", "p", "pf"}, t3 : {"c", "none"}]
       ELSE [t1 : {"c", "p", "cq"}, t2 : {"c", "pf"}, t3 : {"c", "pf", "p"}]

StateOf(m, w, k) ==
    [ agg    |-> m,
      vs     |-> [a \in AggV |-> m[a].on],
      owner  |-> w,
      final  |-> [t \in TxV |-> k[t] = "pf"],
      pbody  |-> [t \in TxV |-> k[t] \in {"p", "pf"}],
      cbody  |-> [t \in TxV |-> k[t] \in {"c", "cq"}],
      queued |-> [t \in TxV |-> k[t] = "cq"] ]

OwnedIn(m, w) == { t \in TxV : w[t] # NoneV /\ m[w[t]].on }

ResetArgs == {<<>>, <<"t2">>, <<"t2", "t3">>, <<"t1">>}
DeferArgs == {<<"t1">>, <<"t3", "t2">>, <<"t1", "t2", "t3">>}
\* batches announced while a member is guarded: every order of the three transactions and the pairs
AnnounceArgs == { x \in UNION { [1..n -> TxV] : n \in 2..3 } : \A i, j \in DOMAIN x : i # j => x[i] # x[j] }

\* a proposal that is being announced (and deferred) holds no transaction guarded by an
\* installed proposal: that case belongs to the duplicate guard of cosiSendAnnouncement
OtherOps(m, w) ==
    { [op |-> "Retry", a |-> a] : a \in { a \in AggV : m[a].on } }
      \cup { [op |-> "Reset", owned |-> ow] : ow \in ResetArgs }
      \cup { [op |-> "Defer", txs |-> txs, how |-> how] :
               txs \in { x \in DeferArgs : Range(x) \cap OwnedIn(m, w) = {} },
               how \in {"nostate", "stale", "late"} }
      \cup { [op |-> "Announce", txs |-> txs] :
               txs \in { x \in AnnounceArgs : Range(x) \cap OwnedIn(m, w) # {} } }

\* Init enumerates the decision table (nested quantifiers: TLC builds no intermediate set)
Init ==
    \/ \E m \in AggMaps(OnTimed) : \E w \in Owners(m) : \E k \in Cls : \E now \in {1, 2, 3} :
          c = [m |-> m, w |-> w, k |-> k, o |-> [op |-> "Expire", now |-> now, base |-> Base]]
    \/ \E m \in AggMaps(OnPlain) : \E w \in Owners(m) : \E k \in Cls : \E o \in OtherOps(m, w) :
          c = [m |-> m, w |-> w, k |-> k, o |-> o]
Next == UNCHANGED c
Spec == Init /\ [][Next]_vars

Pre == StateOf(c.m, c.w, c.k)
Post == Apply(Pre, c.o, TRUE)
PostAll == Apply(Pre, c.o, FALSE)     \* witness variant: retry requeues every transaction

\* the property holds for every step of the specification
PropertyHolds == StepOK(Pre, c.o, Post) /\ StepOKObs(Pre, c.o, Post)
\* expiry does not depend on the iteration order of the Go map
OrderFree == c.o.op = "Expire" => ExpireOrderFree(Pre, c.o.now, c.o.base, TRUE)
\* non-vacuity (each must be violated): the property tells the two retry variants apart, some step
\* re-queues something, some step must leave an owned transaction alone
RequeueAllBreaks == StepOK(Pre, c.o, PostAll)
\* a proposal with the threshold reached but an unanswered commitment expires (must be violated)
ReachPartialExpires == ~(c.o.op = "Expire" /\ \E a \in AggV : a \in MustExpire(Pre, c.o) /\ Pre.agg[a].nc >= Base
                                                              /\ Pre.agg[a].nr > 0 /\ Pre.agg[a].nr < Pre.agg[a].nc)
\* a deferred batch whose guarded member is not last and whose later companion is pending (must be violated)
ReachGuardedFirst == ~(c.o.op = "Announce" /\ Guarded(Pre, c.o.txs[1]) /\ Len(c.o.txs) = 3
                        /\ ~Guarded(Pre, c.o.txs[3]) /\ ~Eligible(Pre, c.o.txs[3]) /\ Eligible(Post, c.o.txs[3]))
ReachRequeued == ~(\E t \in TxV : ~Eligible(Pre, t) /\ Eligible(Post, t))
ReachOwnedKept == ~(\E t \in TxV : OwnedByActive(Pre, c.o, t) /\ t \in RetiredTxs(Pre, c.o)
                                     /\ ~Pre.final[t] /\ HasBody(Pre, t) /\ ~Eligible(Post, t))

EmitCase == PrintT("CASE " \o ToJson([m |-> c.m, w |-> c.w, k |-> c.k, o |-> c.o]))
=============================================================================
