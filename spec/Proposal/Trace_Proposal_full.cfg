SPECIFICATION Spec
CONSTANTS
  Mode = "full"
  NoneC = "None"
CONSTRAINT HW
INVARIANT Inv
POSTCONDITION Accepted
CHECK_DEADLOCK FALSE
