SPECIFICATION Spec
CONSTANTS
  Tx <- TxV
  Agg <- AggV
  AggTxs <- AggTxsV
  Gap = 2
  None <- NoneV
  Family = "two"
INVARIANT ReachOwnedKept
CHECK_DEADLOCK FALSE
