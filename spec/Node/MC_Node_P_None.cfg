SPECIFICATION Spec
CONSTANTS
  Snap <- SnapP
  Def <- DefP
  Chain <- ChainP
  Head0 <- HeadP
  MaxCrash = 1
  MaxTries = 3
  AcceptRepair = TRUE
  LockedMarker = TRUE
  Known <- KnownNone
INVARIANT C21Inv
INVARIANT C22Inv
INVARIANT Consistent
CHECK_DEADLOCK FALSE
