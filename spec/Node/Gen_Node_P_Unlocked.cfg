SPECIFICATION Spec
CONSTANTS
  Snap <- SnapP
  Def <- DefP
  Chain <- ChainP
  Head0 <- HeadP
  MaxCrash = 1
  MaxTries = 3
  AcceptRepair = TRUE
  LockedMarker = FALSE
  Known <- KnownAll
ACTION_CONSTRAINT Emit
CHECK_DEADLOCK FALSE
