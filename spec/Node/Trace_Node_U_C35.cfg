SPECIFICATION Spec
CONSTANTS
  Mode = "C35"
  SnapC <- SnapU
  DefC <- DefU
  ChainC <- ChainP2
  Head0C <- HeadP2
  KnownC <- KNOWNSET
CONSTRAINT HW
INVARIANT Inv
POSTCONDITION Accepted
CHECK_DEADLOCK FALSE
