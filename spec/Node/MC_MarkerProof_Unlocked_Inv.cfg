SPECIFICATION SpecUnlocked
CONSTRAINT Bound
INVARIANT Inv
CHECK_DEADLOCK FALSE
