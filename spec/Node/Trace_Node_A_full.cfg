SPECIFICATION Spec
CONSTANTS
  Mode = "full"
  SnapC <- SnapA
  DefC <- DefA
  ChainC <- ChainA
  Head0C <- HeadA
  KnownC <- KNOWNSET
CONSTRAINT HW
INVARIANT Inv
POSTCONDITION Accepted
CHECK_DEADLOCK FALSE
