SPECIFICATION Spec
CONSTANTS
  Mode = "C35"
  SnapC <- SnapT
  DefC <- DefT
  ChainC <- ChainT
  Head0C <- HeadT
  KnownC <- KNOWNSET
CONSTRAINT HW
INVARIANT Inv
POSTCONDITION Accepted
CHECK_DEADLOCK FALSE
