SPECIFICATION Spec
CONSTANTS
  Snap <- SnapU
  Def <- DefU
  Chain <- ChainU
  Head0 <- HeadU
  MaxCrash = 1
  MaxTries = 3
  AcceptRepair = TRUE
  LockedMarker = TRUE
  Known <- KnownAll
INVARIANT C21Inv
INVARIANT C22Inv
INVARIANT Consistent
ACTION_CONSTRAINT Emit
CHECK_DEADLOCK FALSE
