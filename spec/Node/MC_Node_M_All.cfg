SPECIFICATION Spec
CONSTANTS
  Snap <- SnapM
  Def <- DefM
  Chain <- ChainM
  Head0 <- HeadM
  MaxCrash = 1
  MaxTries = 3
  AcceptRepair = TRUE
  LockedMarker = TRUE
  Known <- KnownAll
INVARIANT C21Inv
INVARIANT C22Inv
INVARIANT Consistent
CHECK_DEADLOCK FALSE
