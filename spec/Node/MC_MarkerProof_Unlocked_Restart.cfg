SPECIFICATION SpecUnlocked
CONSTRAINT Bound
PROPERTY RestartProp
CHECK_DEADLOCK FALSE
