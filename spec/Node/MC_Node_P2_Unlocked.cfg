SPECIFICATION Spec
CONSTANTS
  Snap <- SnapP2
  Def <- DefP2
  Chain <- ChainP2
  Head0 <- HeadP2
  MaxCrash = 1
  MaxTries = 3
  AcceptRepair = TRUE
  LockedMarker = FALSE
  Known <- KnownNone
INVARIANT C21Inv
INVARIANT C22Inv
INVARIANT Consistent
CHECK_DEADLOCK FALSE
