SPECIFICATION Spec
CONSTANTS
  Mode = "full"
  SnapC <- SnapO
  DefC <- DefO
  ChainC <- ChainP2
  Head0C <- HeadP2
  KnownC <- KNOWNSET
CONSTRAINT HW
INVARIANT Inv
POSTCONDITION Accepted
CHECK_DEADLOCK FALSE
