SPECIFICATION Spec
CONSTANTS
  Snap <- SnapQ
  Def <- DefQ
  Chain <- ChainQ
  Head0 <- HeadQ
  MaxCrash = 1
  MaxTries = 3
  AcceptRepair = TRUE
  LockedMarker = FALSE
  Known <- KnownAll
ACTION_CONSTRAINT Emit
CHECK_DEADLOCK FALSE
