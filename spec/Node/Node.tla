-------------------------------- MODULE Node --------------------------------
(***************************************************************************)
(* The finalization pipeline of a Mixin Kernel node at storage-call        *)
(* granularity, with process stop and restart (properties C21, C22; the    *)
(* pipeline is also the carrier of C16).                                   *)
(*                                                                         *)
(* One step = one durable storage call made by the code path               *)
(*   Chain.cosiHandleFinalization -> prepareFinalization (StartNewRound)   *)
(*     -> Node.validateSnapshotTransaction (Validate: LockGhostKeys;       *)
(*        validateKernelSnapshot: AddNodeOperation for a pledge;           *)
(*        lockAndPersistTransaction: LockInputs, WriteTransaction)         *)
(*     -> Chain.AddSnapshot / Node.TopoWrite (WriteSnapshot, and for a     *)
(*        consensus snapshot WriteConsensusSnapshot under the same lock)   *)
(*     -> Node.reloadConsensusState (WriteConsensusSnapshot, idempotent)   *)
(* and for the round-0 acceptance of a pledging node                       *)
(*   Node.finalizeNodeAcceptSnapshot: StartNewRound(0), WriteSnapshot,     *)
(*   StartNewRound(1), then reloadConsensusState.                          *)
(* Each chain runs its pipeline in its own goroutine, so calls of          *)
(* different chains interleave arbitrarily; every call is one atomic,      *)
(* synchronously durable Badger transaction. "Return" is the last          *)
(* (non-durable) step: the handler returns and in-memory state is reloaded.*)
(*                                                                         *)
(* Crash stops the process between any two calls; Restart is SetupNode: it *)
(* repairs the consensus marker only from the LAST topology entry and then *)
(* loads every chain, which aborts for a chain whose head round is 0.      *)
(***************************************************************************)
EXTENDS Integers, Sequences, FiniteSets, TLC

CONSTANTS
    Snap,        \* snapshot ids of the scenario
    Def,         \* [Snap -> [chain, kind, newRound, round, after, closes, ext]]
                 \*   closes = snapshots of the previous round the opener's self reference commits to
                 \*   ext    = <<"-", 0>> (external reference known from the start) or <<chain, round>>: the
                 \*            final round of that chain, stored only once that chain opened round+1
    Chain,       \* chain ids
    Head0,       \* [Chain -> Int] initial head round numbers (-1 = chain has no round yet)
    MaxCrash,    \* bound on the number of stops
    MaxTries,    \* bound on deliveries of one snapshot that end without applying it
    Known,       \* set of known-finding ids tolerated by the invariants
    AcceptRepair,\* TRUE: loadState completes a node acceptance that was interrupted between the start of round 0
                 \*   and of round 1 (the code's design since the repair of finding C22-1). FALSE: SetupNode aborts
                 \*   on a head round 0 (the design before; used only as non-vacuity witness).
    LockedMarker \* TRUE: the consensus record of a consensus snapshot is written inside Node.TopoWrite, under
                 \*   the lock that covers the snapshot write (the code's design). FALSE describes the design
                 \*   before the repair of finding C21-1 (record written after the lock was released); it is
                 \*   only used to GENERATE behaviours that try to write a snapshot inside that window.

(* kinds: "deposit", "transfer" (ordinary) ; "pledge" (consensus class, needs
   AddNodeOperation) ; "accept" (consensus class, round 0 of a new chain) ;
   "mint" (consensus class, LockMintInput)                                    *)
Consensus(s) == Def[s].kind \in {"pledge", "accept", "mint"}

VARIABLES
    ghost, nodeop, lock, body,   \* durable sets of snapshots (their sole transaction)
    head,                         \* durable head round number per chain
    topo,                         \* durable topology: sequence of snapshots
    marker,                       \* durable last consensus marker: a snapshot or "G" (genesis)
    refsOK,                       \* durable, per chain: the head round's stored references are the opener's
                                  \*   (FALSE after a round was opened with a still unknown external reference)
    pc,                           \* volatile: phase reached by the running handler of each snapshot
    abort,                        \* volatile: handlers that must return without further calls
    tries,                        \* deliveries of a snapshot that returned without applying it
    topoLock,                     \* volatile: the handler inside Node.TopoWrite between the snapshot write and
                                  \*   the consensus record written under the same lock ("-" = free)
    complete,                     \* volatile->history: handlers that returned
    up, broken, crashes, fresh    \* process state; fresh = just restarted, nothing ran since

vars == <<ghost, nodeop, lock, body, head, refsOK, topo, marker, pc, abort, tries, topoLock, complete, up, broken, crashes, fresh>>

InTopo(s) == \E i \in 1..Len(topo) : topo[i] = s
TopoSet == { topo[i] : i \in 1..Len(topo) }

ExtKnown(s) == Def[s].ext[1] = "-" \/ head[Def[s].ext[1]] > Def[s].ext[2]
RoundEmpty(c) == ~\E x \in TopoSet : Def[x].chain = c /\ Def[x].round = head[c]

(* Phases 1..11 ; a phase whose guard is false is skipped (no call is made).  *)
PhaseName(s, p) ==
    IF Def[s].kind = "accept"
    THEN CASE p = 1 -> "-"
           [] p = 2 -> "LockGhostKeys"
           [] p = 3 -> "-"
           [] p = 4 -> "LockUTXOs"
           [] p = 5 -> "WriteTransaction"
           [] p = 6 -> "StartNewRound"          \* round 0 of the new chain
           [] p = 7 -> "WriteSnapshot"
           [] p = 8 -> "WriteConsensusSnapshot" \* inside the topology lock (Node.TopoWrite)
           [] p = 9 -> "StartNewRound"          \* round 1
           [] p = 10 -> "WriteConsensusSnapshot" \* repeated by reloadConsensusState (idempotent)
           [] p = 11 -> "Return"
    ELSE CASE p = 1 -> "StartNewRound"
           [] p = 2 -> "LockGhostKeys"
           [] p = 3 -> "AddNodeOperation"
           [] p = 4 -> CASE Def[s].kind = "deposit" -> "LockDepositInput"
                         [] Def[s].kind = "mint"    -> "LockMintInput"
                         [] OTHER                   -> "LockUTXOs"
           [] p = 5 -> "WriteTransaction"
           [] p = 6 -> "UpdateEmptyHeadRound"
           [] p = 7 -> "WriteSnapshot"
           [] p = 8 -> "WriteConsensusSnapshot" \* inside the topology lock (Node.TopoWrite)
           [] p = 9 -> "-"
           [] p = 10 -> "WriteConsensusSnapshot" \* repeated by reloadConsensusState (idempotent)
           [] p = 11 -> "Return"

(* wrote[s]: this run of the handler executed WriteSnapshot (m.finalized / the
   accept path reached its end); the marker is only written in that case.     *)
Guard(s, p, wroteNow) ==
    LET c == Def[s].chain IN
    IF Def[s].kind = "accept"
    THEN CASE p = 1 -> FALSE
           [] p = 2 -> s \notin body
           [] p = 3 -> FALSE
           [] p = 4 -> s \notin body
           [] p = 5 -> s \notin body
           [] p = 6 -> head[c] = -1 \/ (AcceptRepair /\ head[c] = 0 /\ ~InTopo(s))   \* idempotent when repeated after a stop
           [] p = 7 -> head[c] = 0 /\ ~InTopo(s)
           [] p = 8 -> LockedMarker /\ wroteNow /\ topoLock = s
           [] p = 9 -> head[c] = 0 /\ InTopo(s)
           [] p = 10 -> wroteNow
           [] p = 11 -> TRUE
    ELSE IF s \in abort THEN p = 11
    ELSE CASE p = 1 -> Def[s].newRound /\ head[c] = Def[s].round - 1 /\ Def[s].closes \subseteq TopoSet
           [] p = 2 -> s \notin body /\ head[c] = Def[s].round
           [] p = 3 -> Def[s].kind = "pledge" /\ ~InTopo(s) /\ head[c] = Def[s].round
           [] p = 4 -> s \notin body /\ head[c] = Def[s].round
           [] p = 5 -> s \notin body /\ head[c] = Def[s].round
           [] p = 6 -> head[c] = Def[s].round /\ ~refsOK[c] /\ ExtKnown(s) /\ RoundEmpty(c) /\ ~InTopo(s)
           [] p = 7 -> ~InTopo(s) /\ head[c] = Def[s].round /\ refsOK[c]
           [] p = 8 -> LockedMarker /\ Consensus(s) /\ wroteNow /\ topoLock = s
           [] p = 9 -> FALSE
           [] p = 10 -> Consensus(s) /\ wroteNow
           [] p = 11 -> TRUE

(* the handler of s wrote its snapshot in THIS run iff it passed phase 7 with
   the guard true; we remember it in pc by using phase numbers >= 7 together
   with the history variable below. To keep the state small we derive it:
   a handler at phase >= 7 wrote in this run iff s is in topo and it was not
   in topo when the handler started; startedInTopo records the latter.       *)
VARIABLE startedInTopo
allvars == <<vars, startedInTopo>>

WroteNow(s) == InTopo(s) /\ s \notin startedInTopo

NextPhase(s) ==
    LET cands == { p \in (pc[s] + 1)..11 : Guard(s, p, WroteNow(s)) }
    IN  IF cands = {} THEN 0 ELSE CHOOSE p \in cands : \A q \in cands : p <= q

NextCall(s) == IF NextPhase(s) = 0 THEN "-" ELSE PhaseName(s, NextPhase(s))

Init ==
    /\ ghost = {} /\ nodeop = {} /\ lock = {} /\ body = {}
    /\ head = Head0
    /\ topo = <<>>
    /\ marker = "G"
    /\ refsOK = [c \in Chain |-> TRUE]
    /\ pc = [s \in Snap |-> 0]
    /\ abort = {} /\ tries = [s \in Snap |-> 0] /\ topoLock = "-"
    /\ complete = {}
    /\ up = TRUE /\ broken = FALSE /\ crashes = 0 /\ fresh = FALSE
    /\ startedInTopo = {}

Running(s) == pc[s] > 0 /\ pc[s] < 11

(* one chain goroutine handles one snapshot at a time; a snapshot is only
   delivered after the snapshots it depends on have been handled completely  *)
CanRun(s) ==
    /\ up /\ ~broken
    /\ s \notin complete
    /\ (pc[s] = 0 => tries[s] < MaxTries)
    /\ Def[s].after \subseteq complete
    /\ \A s2 \in Snap \ {s} : Def[s2].chain = Def[s].chain => ~Running(s2)

Step(s) ==
    /\ CanRun(s)
    /\ NextPhase(s) # 0
    \* Node.TopoWrite: a handler about to write its snapshot waits while another one is between its
    \* snapshot write and its consensus record
    /\ (NextPhase(s) = 7 => topoLock = "-")
    /\ LET p == NextPhase(s)
           n == PhaseName(s, p)
           c == Def[s].chain
       IN
        /\ pc' = IF n = "Return" /\ ~InTopo(s) THEN [pc EXCEPT ![s] = 0] ELSE [pc EXCEPT ![s] = p]
        /\ UNCHANGED startedInTopo
        /\ ghost'  = IF n = "LockGhostKeys" THEN ghost \cup {s} ELSE ghost
        /\ nodeop' = IF n = "AddNodeOperation" THEN nodeop \cup {s} ELSE nodeop
        /\ lock'   = IF n \in {"LockUTXOs", "LockDepositInput", "LockMintInput"} THEN lock \cup {s} ELSE lock
        /\ body'   = IF n = "WriteTransaction" THEN body \cup {s} ELSE body
        /\ head'   = IF n = "StartNewRound"
                     THEN [head EXCEPT ![c] = IF Def[s].kind = "accept" /\ p = 6 THEN 0 ELSE @ + 1]
                     ELSE head
        /\ refsOK' = CASE n = "StartNewRound" /\ Def[s].kind # "accept" -> [refsOK EXCEPT ![c] = ExtKnown(s)]
                        [] n = "UpdateEmptyHeadRound" -> [refsOK EXCEPT ![c] = TRUE]
                        [] OTHER -> refsOK
        \* a round opened with an unknown external reference, and an empty head whose references were
        \* just replaced, end the handler: the snapshot has to be delivered again
        /\ abort'  = CASE n = "Return" -> abort \ {s}
                        [] n = "StartNewRound" /\ Def[s].kind # "accept" /\ ~ExtKnown(s) -> abort \cup {s}
                        [] n = "UpdateEmptyHeadRound" -> abort \cup {s}
                        [] OTHER -> abort
        /\ tries'  = IF n = "Return" /\ ~InTopo(s) THEN [tries EXCEPT ![s] = @ + 1] ELSE tries
        /\ topo'   = IF n = "WriteSnapshot" THEN Append(topo, s) ELSE topo
        /\ topoLock' = CASE n = "WriteSnapshot" /\ Consensus(s) /\ LockedMarker -> s
                          [] p = 8 -> "-"
                          [] OTHER -> topoLock
        /\ marker' = IF n = "WriteConsensusSnapshot" THEN s ELSE marker
        /\ complete' = IF n = "Return" /\ InTopo(s) THEN complete \cup {s} ELSE complete
        /\ fresh' = FALSE
        /\ UNCHANGED <<up, broken, crashes>>

Crash ==
    /\ up /\ crashes < MaxCrash
    /\ up' = FALSE /\ crashes' = crashes + 1
    /\ pc' = [s \in Snap |-> IF s \in complete THEN pc[s] ELSE 0]
    /\ abort' = {} /\ topoLock' = "-"
    /\ fresh' = FALSE
    /\ startedInTopo' = { s \in Snap : InTopo(s) }   \* every later run starts from this topology
    /\ UNCHANGED <<ghost, nodeop, lock, body, head, refsOK, topo, marker, tries, complete, broken>>

(* SetupNode: LastSnapshot() -> reloadConsensusState if it holds one consensus
   transaction; then every chain is loaded. A chain whose head round is 0 was
   being accepted when the process stopped: with the accept snapshot stored,
   loadState starts round 1 (the last step of finalizeNodeAcceptSnapshot);
   without it the chain stays without state and the snapshot is finalized
   again. Before that repair loadState read round number - 1 and aborted.    *)
AcceptedAtZero(c) == head[c] = 0 /\ \E s \in Snap : Def[s].kind = "accept" /\ Def[s].chain = c /\ InTopo(s)
Restart ==
    /\ ~up
    /\ up' = TRUE /\ fresh' = TRUE
    /\ marker' = IF Len(topo) > 0 /\ Consensus(topo[Len(topo)]) THEN topo[Len(topo)] ELSE marker
    /\ broken' = IF AcceptRepair THEN FALSE ELSE \E c \in Chain : head[c] = 0
    /\ head' = IF AcceptRepair THEN [c \in Chain |-> IF AcceptedAtZero(c) THEN 1 ELSE head[c]] ELSE head
    /\ UNCHANGED <<ghost, nodeop, lock, body, refsOK, topo, pc, abort, tries, topoLock, complete, crashes, startedInTopo>>

Next == (\E s \in Snap : Step(s)) \/ Crash \/ Restart

Spec == Init /\ [][Next]_allvars

(* ---------------------------------------------------------------------- *)
(* Properties                                                              *)

\* position of the marker in the topology (0 = genesis marker)
Pos(x) == IF x = "G" THEN 0 ELSE CHOOSE i \in 1..Len(topo) : topo[i] = x

MarkerCovers(i) == marker # "G" /\ InTopo(marker) /\ Pos(marker) >= i

Uncovered == { i \in 1..Len(topo) : Consensus(topo[i]) /\ ~MarkerCovers(i) }

\* C21: after a restart the last recorded consensus operation is every durably
\* finalized consensus snapshot or a later one.
C21Holds == Uncovered = {}

\* Known finding C21-1: an uncovered consensus snapshot that is NOT the last
\* topology entry (another snapshot was written after it before the stop, so the
\* startup repair, which only looks at the last entry, does not see it).
KF_C21_1 == "C21-1" \in Known /\ \A i \in Uncovered : i < Len(topo)

C21Inv == fresh => (C21Holds \/ KF_C21_1)

\* C22: the node restarts.
\* Known finding C22-1: stop between the durable writes of node-accept
\* finalization (head round 0 of the accepted chain stored, round 1 not).
KF_C22_1 == "C22-1" \in Known /\ \E s \in Snap : Def[s].kind = "accept" /\ head[Def[s].chain] = 0

C22Inv == fresh => (~broken \/ KF_C22_1)

\* structural consistency of the durable state in every state
Consistent ==
    /\ \A i \in 1..Len(topo) : topo[i] \in body
    /\ \A i, j \in 1..Len(topo) : i # j => topo[i] # topo[j]
    /\ \A s \in body : s \in lock /\ s \in ghost
    /\ (marker # "G" => InTopo(marker) /\ Consensus(marker))
=============================================================================
