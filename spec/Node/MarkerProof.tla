---------------------------- MODULE MarkerProof ----------------------------
(***************************************************************************)
(* Unbounded TLAPS proof of the crash-safety design behind property C21    *)
(* (after a stop and restart the node's last recorded consensus operation  *)
(* is every durably finalized consensus-class snapshot or a later one).    *)
(* spec/Node/Node.tla is checked by TLC for scenarios of 2-4 snapshots on  *)
(* 2-3 chains with a bounded number of stops.  This module keeps only what *)
(* the argument needs - positions in the topology - and proves it for ANY  *)
(* number of snapshots, chains, interleavings, stops and restarts.         *)
(*                                                                         *)
(* The design (repair 2cd8a1a, kernel/topology.go): Node.TopoWrite appends *)
(* the snapshot to the topology and, for a consensus-class snapshot,       *)
(* records it as the last consensus operation BEFORE it releases the       *)
(* topology lock, so no other snapshot is appended in between; SetupNode   *)
(* repairs the record from the LAST topology entry only.                   *)
(*                                                                         *)
(* Correspondence with Node.tla (LockedMarker = TRUE):                     *)
(*   n         = Len(topo)                                                 *)
(*   lastCons  = the largest i in 1..Len(topo) with Consensus(topo[i]),    *)
(*               0 if there is none                                        *)
(*   marker    = Pos(marker): 0 for "G" (genesis), else the position of    *)
(*               the marker snapshot in topo                               *)
(*   lock      = 0 for topoLock = "-", else Pos(topoLock): the position of *)
(*               the entry whose writer is still inside Node.TopoWrite     *)
(*   up        = up                                                        *)
(*   WriteOrdinary  = Step(s), phase 7 (WriteSnapshot), ~Consensus(s);     *)
(*                    guard topoLock = "-"                                 *)
(*   WriteConsensus = Step(s), phase 7, Consensus(s): topo' = Append(topo, *)
(*                    s), topoLock' = s; guard topoLock = "-"              *)
(*   WriteMarker    = Step(s), phase 8 (WriteConsensusSnapshot inside the  *)
(*                    lock): guard topoLock = s, marker' = s, topoLock' =  *)
(*                    "-"                                                  *)
(*   RepeatMarker   = Step(s), phase 10 (WriteConsensusSnapshot repeated   *)
(*                    by reloadConsensusState) for an entry p this process *)
(*                    wrote.  Node.tla writes marker' = s; its scenarios   *)
(*                    hold one consensus snapshot, so this is a no-op      *)
(*                    there.  The storage call leaves the record alone     *)
(*                    when s already is the last one (and refuses an older *)
(*                    s, whose successor references it); here: marker' =   *)
(*                    max(marker, p) for ANY p in 1..lastCons, in any lock *)
(*                    state - more behaviours than the code has.           *)
(*   Crash          = Crash (topoLock' = "-"; durable n, lastCons, marker  *)
(*                    stay)                                                *)
(*   Restart        = Restart: marker' = topo[Len(topo)] if that entry is  *)
(*                    of the consensus class (lastCons = n /\ n > 0)       *)
(*   Covered        = C21Holds (Uncovered = {}): marker >= lastCons        *)
(*   RestartCovers  = C21Inv (fresh => C21Holds) with Known = {}           *)
(*   NextUnlocked   = LockedMarker = FALSE: phase 8 never runs, the record *)
(*                    is only written by phase 10 after the lock is free   *)
(*                    (WriteConsensusU takes no lock).  Witness only: TLC  *)
(*                    shows that Inv and RestartCovers FAIL there.         *)
(*                                                                         *)
(* Abstracted away (NOT covered by this proof):                            *)
(*   - WHICH snapshot sits at a position, its chain, round and kind beyond *)
(*     consensus class / ordinary; the per-chain handlers (pc, abort,      *)
(*     tries, complete, CanRun): any writer may write at any time, which   *)
(*     is every interleaving of any number of chains.                      *)
(*   - every other storage call of the pipeline (phases 1-6, 9, 11:        *)
(*     StartNewRound, LockGhostKeys, AddNodeOperation, Lock*Input,         *)
(*     WriteTransaction, UpdateEmptyHeadRound, Return): they do not touch  *)
(*     topo, marker or topoLock, i.e. they are stuttering steps here.      *)
(*   - the accept path (finalizeNodeAcceptSnapshot: StartNewRound(0),      *)
(*     WriteSnapshot, record, StartNewRound(1)) is a WriteConsensus /      *)
(*     WriteMarker pair like any other; head rounds, broken, AcceptRepair  *)
(*     (property C22) are left out.                                        *)
(*   - the bound MaxCrash: stops and restarts are unbounded here.          *)
(*   - below the model: that the last consensus record of the store is the *)
(*     one with the largest position (the store orders records by snapshot *)
(*     timestamp), legacy consensus transactions without reference (never  *)
(*     recorded), Badger atomicity, the mutex, and the correspondence of   *)
(*     Node.tla with the Go code (replay + trace validation of C21, for    *)
(*     bounded scenarios).                                                 *)
(*                                                                         *)
(* Proved (no constants, no bound on n):                                   *)
(*   TypeCorrect     Spec => []TypeOK                                      *)
(*   InvCorrect      Spec => []Inv                                         *)
(*   C21Running      Spec => [](up /\ lock = 0 => marker >= lastCons)      *)
(*   C21Stopped      Spec => [](~up => marker >= lastCons \/ lastCons = n) *)
(*                   (a stopped node is covered or repairable from the     *)
(*                   last entry)                                           *)
(*   C21Restart      Spec => [][Restart => (marker >= lastCons)']_vars     *)
(*   MarkerExact     Spec => [](marker <= lastCons)  (with C21Running: the *)
(*                   marker IS the last consensus entry)                   *)
(* MC_MarkerProof.tla lets TLC check the same statements for n <= 5 and    *)
(* shows that they fail for SpecUnlocked.                                  *)
(***************************************************************************)
EXTENDS Integers, TLAPS

VARIABLES n, lastCons, marker, lock, up
vars == <<n, lastCons, marker, lock, up>>

Init == n = 0 /\ lastCons = 0 /\ marker = 0 /\ lock = 0 /\ up = TRUE

WriteOrdinary ==
    /\ up /\ lock = 0
    /\ n' = n + 1
    /\ UNCHANGED <<lastCons, marker, lock, up>>

WriteConsensus ==
    /\ up /\ lock = 0
    /\ n' = n + 1 /\ lastCons' = n + 1 /\ lock' = n + 1
    /\ UNCHANGED <<marker, up>>

\* the record written inside Node.TopoWrite, before the lock is released
WriteMarker ==
    /\ up /\ lock # 0
    /\ marker' = lock /\ lock' = 0
    /\ UNCHANGED <<n, lastCons, up>>

\* reloadConsensusState repeats the record of an entry written earlier
RepeatMarker ==
    /\ up
    /\ \E p \in 1..lastCons : marker' = IF p > marker THEN p ELSE marker
    /\ UNCHANGED <<n, lastCons, lock, up>>

Crash ==
    /\ up
    /\ up' = FALSE /\ lock' = 0
    /\ UNCHANGED <<n, lastCons, marker>>

\* SetupNode: repair from the LAST topology entry only
Restart ==
    /\ ~up
    /\ up' = TRUE
    /\ marker' = IF lastCons = n /\ n > 0 THEN n ELSE marker
    /\ UNCHANGED <<n, lastCons, lock>>

Next == WriteOrdinary \/ WriteConsensus \/ WriteMarker \/ RepeatMarker \/ Crash \/ Restart

Spec == Init /\ [][Next]_vars

\* the design before the repair: the consensus snapshot is appended without keeping the lock; its record is
\* written later (RepeatMarker is then the only writer of the record)
WriteConsensusU ==
    /\ up /\ lock = 0
    /\ n' = n + 1 /\ lastCons' = n + 1
    /\ UNCHANGED <<marker, lock, up>>

NextUnlocked == WriteOrdinary \/ WriteConsensusU \/ RepeatMarker \/ Crash \/ Restart

SpecUnlocked == Init /\ [][NextUnlocked]_vars

TypeOK == /\ n \in Nat
          /\ lastCons \in Nat
          /\ marker \in Nat
          /\ lock \in Nat
          /\ up \in BOOLEAN

Covered == marker >= lastCons

Inv == /\ TypeOK
       /\ marker <= lastCons
       /\ lastCons <= n
       /\ lock # 0 => up /\ lock = n /\ lastCons = n
       /\ Covered \/ (lastCons = n /\ (lock = n \/ ~up))

RestartCovers == Restart => Covered'

LEMMA TypeInit == Init => TypeOK
  BY DEF Init, TypeOK

LEMMA TypeNext == TypeOK /\ [Next]_vars => TypeOK'
  <1> SUFFICES ASSUME TypeOK, [Next]_vars PROVE TypeOK'
      OBVIOUS
  <1>1. ASSUME WriteOrdinary PROVE TypeOK'
        BY <1>1 DEF WriteOrdinary, TypeOK
  <1>2. ASSUME WriteConsensus PROVE TypeOK'
        BY <1>2 DEF WriteConsensus, TypeOK
  <1>3. ASSUME WriteMarker PROVE TypeOK'
        BY <1>3 DEF WriteMarker, TypeOK
  <1>4. ASSUME RepeatMarker PROVE TypeOK'
        BY <1>4 DEF RepeatMarker, TypeOK
  <1>5. ASSUME Crash PROVE TypeOK'
        BY <1>5 DEF Crash, TypeOK
  <1>6. ASSUME Restart PROVE TypeOK'
        BY <1>6 DEF Restart, TypeOK
  <1>7. ASSUME UNCHANGED vars PROVE TypeOK'
        BY <1>7 DEF vars, TypeOK
  <1> QED BY <1>1, <1>2, <1>3, <1>4, <1>5, <1>6, <1>7 DEF Next

THEOREM TypeCorrect == Spec => []TypeOK
  <1>1. Init => TypeOK BY TypeInit
  <1>2. TypeOK /\ [Next]_vars => TypeOK' BY TypeNext
  <1> QED BY <1>1, <1>2, PTL DEF Spec

LEMMA InvInit == Init => Inv
  BY DEF Init, Inv, TypeOK, Covered

LEMMA InvNext == Inv /\ [Next]_vars => Inv'
  <1> SUFFICES ASSUME Inv, [Next]_vars PROVE Inv'
      OBVIOUS
  <1> TypeOK' BY TypeNext DEF Inv
  <1>1. ASSUME WriteOrdinary PROVE Inv'
        BY <1>1 DEF WriteOrdinary, Inv, TypeOK, Covered
  <1>2. ASSUME WriteConsensus PROVE Inv'
        BY <1>2 DEF WriteConsensus, Inv, TypeOK, Covered
  <1>3. ASSUME WriteMarker PROVE Inv'
        BY <1>3 DEF WriteMarker, Inv, TypeOK, Covered
  <1>4. ASSUME RepeatMarker PROVE Inv'
        BY <1>4 DEF RepeatMarker, Inv, TypeOK, Covered
  <1>5. ASSUME Crash PROVE Inv'
        BY <1>5 DEF Crash, Inv, TypeOK, Covered
  <1>6. ASSUME Restart PROVE Inv'
        BY <1>6 DEF Restart, Inv, TypeOK, Covered
  <1>7. ASSUME UNCHANGED vars PROVE Inv'
        BY <1>7 DEF vars, Inv, TypeOK, Covered
  <1> QED BY <1>1, <1>2, <1>3, <1>4, <1>5, <1>6, <1>7 DEF Next

THEOREM InvCorrect == Spec => []Inv
  <1>1. Init => Inv BY InvInit
  <1>2. Inv /\ [Next]_vars => Inv' BY InvNext
  <1> QED BY <1>1, <1>2, PTL DEF Spec

\* C21 for a running node: outside Node.TopoWrite the marker covers every consensus entry
THEOREM C21Running == Spec => [](up /\ lock = 0 => marker >= lastCons)
  <1>1. Inv => (up /\ lock = 0 => marker >= lastCons)
        BY DEF Inv, TypeOK, Covered
  <1> QED BY <1>1, InvCorrect, PTL

\* a stopped node is covered, or its only uncovered consensus entry is the last topology entry
THEOREM C21Stopped == Spec => [](~up => marker >= lastCons \/ lastCons = n)
  <1>1. Inv => (~up => marker >= lastCons \/ lastCons = n)
        BY DEF Inv, TypeOK, Covered
  <1> QED BY <1>1, InvCorrect, PTL

\* the marker never points beyond the last consensus entry
THEOREM MarkerExact == Spec => [](marker <= lastCons)
  <1>1. Inv => marker <= lastCons
        BY DEF Inv
  <1> QED BY <1>1, InvCorrect, PTL

\* C21 as stated: right after SetupNode the marker covers every consensus entry of the topology
LEMMA RestartNext == Inv /\ [Next]_vars => [RestartCovers]_vars
  <1> SUFFICES ASSUME Inv, Restart PROVE Covered'
      BY DEF RestartCovers
  <1> QED BY DEF Restart, Inv, TypeOK, Covered

THEOREM C21Restart == Spec => [][Restart => (marker >= lastCons)']_vars
  <1>1. Inv /\ [Next]_vars => [RestartCovers]_vars BY RestartNext
  <1>2. Spec => [][RestartCovers]_vars BY <1>1, InvCorrect, PTL DEF Spec
  <1> QED BY <1>2 DEF RestartCovers, Covered
=============================================================================
