SPECIFICATION Spec
CONSTANTS
  Snap <- SnapA
  Def <- DefA
  Chain <- ChainA
  Head0 <- HeadA
  MaxCrash = 1
  MaxTries = 3
  AcceptRepair = TRUE
  LockedMarker = FALSE
  Known <- KnownAll
ACTION_CONSTRAINT Emit
CHECK_DEADLOCK FALSE
