SPECIFICATION Spec
CONSTANTS
  Mode = "C21"
  SnapC <- SnapQ
  DefC <- DefQ
  ChainC <- ChainT
  Head0C <- HeadT
  KnownC <- KNOWNSET
CONSTRAINT HW
INVARIANT Inv
POSTCONDITION Accepted
CHECK_DEADLOCK FALSE
