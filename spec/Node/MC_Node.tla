------------------------------ MODULE MC_Node ------------------------------
(* Bounded scenarios of the finalization pipeline (E3) and edge emission (E1). *)
EXTENDS Node, Json

D(c, k, nr, r, af) == [chain |-> c, kind |-> k, newRound |-> nr, round |-> r, after |-> af, closes |-> {}, ext |-> <<"-", 0>>]
DX(c, k, nr, r, af, cl, ex) == [chain |-> c, kind |-> k, newRound |-> nr, round |-> r, after |-> af, closes |-> cl, ext |-> ex]

\* Scenario P: a pledge X on chain A (current round), deposits Y on chain B and Z on chain C.
SnapP == {"X", "Y", "Z"}
DefP  == [s \in SnapP |->
            CASE s = "X" -> D("A", "pledge", FALSE, 1, {})
              [] s = "Y" -> D("B", "deposit", FALSE, 1, {})
              [] s = "Z" -> D("C", "deposit", FALSE, 1, {})]
ChainP == {"A", "B", "C"}
HeadP  == [c \in ChainP |-> 1]

\* Scenario P2: the two-snapshot core of P (quick tier replay).
SnapP2 == {"X", "Y"}
DefP2  == [s \in SnapP2 |->
            CASE s = "X" -> D("A", "pledge", FALSE, 1, {})
              [] s = "Y" -> D("B", "deposit", FALSE, 1, {})]
ChainP2 == {"A", "B"}
HeadP2  == [c \in ChainP2 |-> 1]

\* Scenario Q: the pledge X opens a new round of chain A after an earlier deposit W.
SnapQ == {"W", "X", "Y"}
DefQ  == [s \in SnapQ |->
            CASE s = "W" -> D("A", "deposit", FALSE, 1, {})
              [] s = "X" -> DX("A", "pledge", TRUE, 2, {"W"}, {"W"}, <<"-", 0>>)
              [] s = "Y" -> D("B", "deposit", FALSE, 1, {})]
ChainQ == {"A", "B"}
HeadQ  == [c \in ChainQ |-> 1]

\* Scenario A: acceptance X of the pledged node N (round 0 of its new chain), deposit Y on B.
SnapA == {"X", "Y"}
DefA  == [s \in SnapA |->
            CASE s = "X" -> D("N", "accept", FALSE, 0, {})
              [] s = "Y" -> D("B", "deposit", FALSE, 1, {})]
ChainA == {"N", "B"}
HeadA  == [c \in ChainA |-> IF c = "N" THEN -1 ELSE 1]

\* Scenario M: a mint X on chain A, deposit Y on chain B.
SnapM == {"X", "Y"}
DefM  == [s \in SnapM |->
            CASE s = "X" -> D("A", "mint", FALSE, 1, {})
              [] s = "Y" -> D("B", "deposit", FALSE, 1, {})]
ChainM == {"A", "B"}
HeadM  == [c \in ChainM |-> 1]

\* Scenario O (out-of-order delivery): W and V fill round 1 of chain A, X opens round 2 and commits to
\* both; the three certified snapshots may be delivered in any order.
SnapO == {"W", "V", "X"}
DefO  == [s \in SnapO |->
            CASE s = "W" -> D("A", "deposit", FALSE, 1, {})
              [] s = "V" -> D("A", "deposit", FALSE, 1, {})
              [] s = "X" -> DX("A", "deposit", TRUE, 2, {}, {"W", "V"}, <<"-", 0>>)]
ChainO == {"A"}
HeadO  == [c \in ChainO |-> 1]

\* Scenario U (unknown external reference): X opens round 2 of chain A referencing the final round 1 of
\* chain B, which the node only stores once Z has opened round 2 of B.
SnapU == {"W", "X", "Y", "Z"}
DefU  == [s \in SnapU |->
            CASE s = "W" -> D("A", "deposit", FALSE, 1, {})
              [] s = "Y" -> D("B", "deposit", FALSE, 1, {})
              [] s = "X" -> DX("A", "deposit", TRUE, 2, {"W"}, {"W"}, <<"B", 1>>)
              [] s = "Z" -> DX("B", "deposit", TRUE, 2, {"Y"}, {"Y"}, <<"-", 0>>)]
ChainU == {"A", "B"}
HeadU  == [c \in ChainU |-> 1]

\* Scenario T: ordinary traffic only: transfer X opening round 2 of A after deposit W, deposit Y on B.
SnapT == {"W", "X", "Y"}
DefT  == [s \in SnapT |->
            CASE s = "W" -> D("A", "deposit", FALSE, 1, {})
              [] s = "X" -> DX("A", "transfer", TRUE, 2, {"W"}, {"W"}, <<"-", 0>>)
              [] s = "Y" -> D("B", "deposit", FALSE, 1, {})]
ChainT == {"A", "B"}
HeadT  == [c \in ChainT |-> 1]

KnownAll  == {"C21-1", "C22-1"}
KnownNone == {}
Known21 == {"C21-1"}
Known22 == {"C22-1"}

View == <<ghost, nodeop, lock, body, head, refsOK, topo, marker, pc, abort, tries, topoLock, complete, up, broken, crashes, fresh, startedInTopo>>

\* what the last step did, for the replayer (derived, not a variable)
Act ==
    IF up /\ ~up' THEN [a |-> "Crash"]
    ELSE IF ~up /\ up' THEN [a |-> "Restart"]
    ELSE LET s == CHOOSE x \in Snap : pc'[x] # pc[x] \/ tries'[x] # tries[x] IN
         [a |-> "Step", s |-> s, call |-> IF tries'[s] # tries[s] THEN "Return" ELSE PhaseName(s, pc'[s])]

St == [ghost |-> ghost, nodeop |-> nodeop, lock |-> lock, body |-> body, head |-> head, topo |-> topo,
       marker |-> marker, pc |-> pc, complete |-> complete, up |-> up, broken |-> broken,
       crashes |-> crashes, fresh |-> fresh, sit |-> startedInTopo, rok |-> refsOK, ab |-> abort, tr |-> tries, tl |-> topoLock]
StP == [ghost |-> ghost', nodeop |-> nodeop', lock |-> lock', body |-> body', head |-> head', topo |-> topo',
       marker |-> marker', pc |-> pc', complete |-> complete', up |-> up', broken |-> broken',
       crashes |-> crashes', fresh |-> fresh', sit |-> startedInTopo', rok |-> refsOK', ab |-> abort', tr |-> tries', tl |-> topoLock']

Emit == PrintT("EDGE " \o ToJson([from |-> St, o |-> Act, to |-> StP]))
=============================================================================
