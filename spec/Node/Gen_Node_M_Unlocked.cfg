SPECIFICATION Spec
CONSTANTS
  Snap <- SnapM
  Def <- DefM
  Chain <- ChainM
  Head0 <- HeadM
  MaxCrash = 1
  MaxTries = 3
  AcceptRepair = TRUE
  LockedMarker = FALSE
  Known <- KnownAll
ACTION_CONSTRAINT Emit
CHECK_DEADLOCK FALSE
