SPECIFICATION Spec
CONSTANTS
  Snap <- SnapU
  Def <- DefU
  Chain <- ChainU
  Head0 <- HeadU
  MaxCrash = 1
  MaxTries = 3
  AcceptRepair = TRUE
  LockedMarker = TRUE
  Known <- KnownNone
INVARIANT C21Inv
INVARIANT C22Inv
INVARIANT Consistent
CHECK_DEADLOCK FALSE
