SPECIFICATION Spec
CONSTANTS
  Mode = "C35"
  SnapC <- SnapA
  DefC <- DefA
  ChainC <- ChainA
  Head0C <- HeadA
  KnownC <- KNOWNSET
CONSTRAINT HW
INVARIANT Inv
POSTCONDITION Accepted
CHECK_DEADLOCK FALSE
