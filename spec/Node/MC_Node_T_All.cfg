SPECIFICATION Spec
CONSTANTS
  Snap <- SnapT
  Def <- DefT
  Chain <- ChainT
  Head0 <- HeadT
  MaxCrash = 1
  MaxTries = 3
  AcceptRepair = TRUE
  LockedMarker = TRUE
  Known <- KnownAll
INVARIANT C21Inv
INVARIANT C22Inv
INVARIANT Consistent
CHECK_DEADLOCK FALSE
