--------------------------- MODULE MC_MarkerProof ---------------------------
(* TLC-checkable instance of MarkerProof: the same definitions, the number   *)
(* of topology entries bounded by a state constraint (n <= MaxN), so that    *)
(* the machine about which TLAPS proves the theorems is also explored by TLC *)
(* and, for the design WITHOUT the lock around the consensus record          *)
(* (SpecUnlocked), TLC exhibits the behaviours that lose the marker.         *)
(* MarkerProof EXTENDS TLAPS (for the PTL pragma); TLC only has to parse     *)
(* that module: copy spec/Locks/TLAPS.tla next to this file.                 *)
(*   tlc -config MC_MarkerProof_Locked.cfg MC_MarkerProof.tla    must pass   *)
(*   MC_MarkerProof_Unlocked_Inv.cfg      invariant Inv must be VIOLATED     *)
(*   MC_MarkerProof_Unlocked_Restart.cfg  RestartProp must be VIOLATED       *)
(*     (WriteConsensusU, WriteOrdinary, Crash, Restart: the entry the        *)
(*     startup repair looks at is not the consensus one)                     *)
(*   MC_MarkerProof_wit_*.cfg: non-vacuity of the locked design, the named   *)
(*     invariant must be VIOLATED (the situation is reachable)               *)
EXTENDS MarkerProof

MaxN == 5
Bound == n <= MaxN

C21RunningInv == up /\ lock = 0 => marker >= lastCons
C21StoppedInv == ~up => marker >= lastCons \/ lastCons = n
MarkerExactInv == marker <= lastCons
RestartProp == [][RestartCovers]_vars

\* Non-vacuity witnesses for Spec: each must be VIOLATED.
\* a stop inside Node.TopoWrite: the node is down and the last consensus entry is not recorded
NoStopInWindow == ~(~up /\ marker < lastCons)
\* a restart that actually repairs the record from the last entry
NoRepair == [][~(Restart /\ marker' # marker)]_vars
=============================================================================
