SPECIFICATION Spec
CONSTRAINT Bound
INVARIANT TypeOK
INVARIANT Inv
INVARIANT C21RunningInv
INVARIANT C21StoppedInv
INVARIANT MarkerExactInv
PROPERTY RestartProp
CHECK_DEADLOCK FALSE
