----------------------------- MODULE Trace_Node -----------------------------
(***************************************************************************)
(* Trace specification of the finalization pipeline with stop / restart.   *)
(*                                                                         *)
(* Events (one recorded execution per Reset; one scenario per file):       *)
(*  {"ev":"Reset","scn":..}                                                *)
(*  {"ev":"Call","s":snap,"call":name[,"res":..],"obs":{light}}  the       *)
(*        handler of s made storage call `name` (or returned)              *)
(*  {"ev":"Blocked","s":snap}  the handler of s had to wait for the       *)
(*        topology lock (ends the recorded execution)                      *)
(*  {"ev":"Crash"}                                                         *)
(*  {"ev":"Restart","obs":{setup,marker,topo,head,body,final,invalid,..}}  *)
(*  {"ev":"End",...}                                                       *)
(*                                                                         *)
(* Mode "full": every recorded call must be the next call of the           *)
(*   specification's pipeline for that snapshot, and every observation     *)
(*   must equal the specification's durable state.                         *)
(* Mode "C21" / "C22": only the property's statement is evaluated, on the  *)
(*   observations made right after each restart.                           *)
(***************************************************************************)
EXTENDS TraceLib, Integers, FiniteSets

CONSTANTS Mode, SnapC, DefC, ChainC, Head0C, KnownC

VARIABLES l, ghost, nodeop, lock, body, head, refsOK, topo, marker, pc, abort, tries, topoLock, complete, up, broken, crashes, fresh, startedInTopo,
          ord    \* [last, ok]: topology position of the last snapshot write and whether commit order = position order so far

N == INSTANCE Node WITH Snap <- SnapC, Def <- DefC, Chain <- ChainC, Head0 <- Head0C,
                        MaxCrash <- 1000, MaxTries <- 1000, Known <- KnownC, LockedMarker <- TRUE, AcceptRepair <- TRUE

D(c, k, nr, r, af) == [chain |-> c, kind |-> k, newRound |-> nr, round |-> r, after |-> af, closes |-> {}, ext |-> <<"-", 0>>]
DX(c, k, nr, r, af, cl, ex) == [chain |-> c, kind |-> k, newRound |-> nr, round |-> r, after |-> af, closes |-> cl, ext |-> ex]
SnapP2 == {"X", "Y"}
DefP2  == [s \in SnapP2 |-> CASE s = "X" -> D("A", "pledge", FALSE, 1, {})
                              [] s = "Y" -> D("B", "deposit", FALSE, 1, {})]
ChainP2 == {"A", "B", "C"}
HeadP2  == [c \in ChainP2 |-> 1]
SnapP == {"X", "Y", "Z"}
DefP  == [s \in SnapP |-> CASE s = "X" -> D("A", "pledge", FALSE, 1, {})
                            [] s = "Y" -> D("B", "deposit", FALSE, 1, {})
                            [] s = "Z" -> D("C", "deposit", FALSE, 1, {})]
SnapQ == {"W", "X", "Y"}
DefQ  == [s \in SnapQ |-> CASE s = "W" -> D("A", "deposit", FALSE, 1, {})
                            [] s = "X" -> DX("A", "pledge", TRUE, 2, {"W"}, {"W"}, <<"-", 0>>)
                            [] s = "Y" -> D("B", "deposit", FALSE, 1, {})]
SnapM == {"X", "Y"}
DefM  == [s \in SnapM |-> CASE s = "X" -> D("A", "mint", FALSE, 1, {})
                            [] s = "Y" -> D("B", "deposit", FALSE, 1, {})]
SnapA == {"X", "Y"}
DefA  == [s \in SnapA |-> CASE s = "X" -> D("N", "accept", FALSE, 0, {})
                            [] s = "Y" -> D("B", "deposit", FALSE, 1, {})]
ChainA == {"N", "B"}
HeadA  == [c \in ChainA |-> IF c = "N" THEN -1 ELSE 1]
SnapO == {"W", "V", "X"}
DefO  == [s \in SnapO |-> CASE s = "W" -> D("A", "deposit", FALSE, 1, {})
                            [] s = "V" -> D("A", "deposit", FALSE, 1, {})
                            [] s = "X" -> DX("A", "deposit", TRUE, 2, {}, {"W", "V"}, <<"-", 0>>)]
SnapU == {"W", "X", "Y", "Z"}
DefU  == [s \in SnapU |-> CASE s = "W" -> D("A", "deposit", FALSE, 1, {})
                            [] s = "Y" -> D("B", "deposit", FALSE, 1, {})
                            [] s = "X" -> DX("A", "deposit", TRUE, 2, {"W"}, {"W"}, <<"B", 1>>)
                            [] s = "Z" -> DX("B", "deposit", TRUE, 2, {"Y"}, {"Y"}, <<"-", 0>>)]
SnapT == {"W", "X", "Y"}
DefT  == [s \in SnapT |-> CASE s = "W" -> D("A", "deposit", FALSE, 1, {})
                            [] s = "X" -> DX("A", "transfer", TRUE, 2, {"W"}, {"W"}, <<"-", 0>>)
                            [] s = "Y" -> D("B", "deposit", FALSE, 1, {})]
ChainT == {"A", "B", "C"}
HeadT  == [c \in ChainT |-> 1]
KnownAll == {"C21-1", "C22-1"}
KnownNone == {}
Known21 == {"C21-1"}
Known22 == {"C22-1"}

nvars == <<ghost, nodeop, lock, body, head, refsOK, topo, marker, pc, abort, tries, topoLock, complete, up, broken, crashes, fresh, startedInTopo>>

Init == l = 1 /\ N!Init /\ ord = [last |-> 0, ok |-> TRUE]

Ev == Trace[l]
IsEvent(n) == l <= TraceLen /\ Ev.ev = n /\ l' = l + 1

Reset ==
    /\ IsEvent("Reset")
    /\ ghost' = {} /\ nodeop' = {} /\ lock' = {} /\ body' = {}
    /\ head' = Head0C /\ topo' = <<>> /\ marker' = "G"
    /\ refsOK' = [c \in ChainC |-> TRUE] /\ abort' = {} /\ tries' = [s \in SnapC |-> 0] /\ topoLock' = "-"
    /\ pc' = [s \in SnapC |-> 0] /\ complete' = {}
    /\ up' = TRUE /\ broken' = FALSE /\ crashes' = 0 /\ fresh' = FALSE /\ startedInTopo' = {}
    /\ ord' = [last |-> 0, ok |-> TRUE]

\* light observation made after a call: durable marker, topology, heads, bodies
LightMatches(o) ==
    /\ o.marker = marker'
    /\ o.topo = topo'
    /\ \A c \in ChainC : c \in DOMAIN o.head => o.head[c] = head'[c]
    /\ SeqToSet(o.body) = body'

FullCall ==
    /\ Ev.s \in SnapC
    /\ N!Step(Ev.s)
    /\ N!NextCall(Ev.s) = Ev.call
    /\ (Ev.call = "Return" => Ev.res = "ok")
    /\ (Has(Ev, "obs") => LightMatches(Ev.obs))

\* the node assigns topology positions under the lock that also covers the write: snapshots reach
\* the store in position order
OrdNext == IF Ev.call = "WriteSnapshot" /\ Has(Ev, "pos")
           THEN [last |-> Ev.pos, ok |-> ord.ok /\ Ev.pos > ord.last]
           ELSE ord

Call ==
    /\ IsEvent("Call")
    /\ IF Mode = "full" THEN FullCall ELSE UNCHANGED nvars
    /\ ord' = OrdNext
    /\ (Mode \in {"full", "C35"} => OrdNext.ok)

Crash ==
    /\ IsEvent("Crash")
    /\ IF Mode = "full" THEN N!Crash ELSE UNCHANGED nvars
    /\ UNCHANGED ord

(* ---- the property monitors, on the observation made right after a restart ---- *)
OConsensus(s) == DefC[s].kind \in {"pledge", "accept", "mint"}
OPos(o, x) == IF x \in SeqToSet(o.topo) THEN CHOOSE i \in 1..Len(o.topo) : o.topo[i] = x ELSE 0
OUncovered(o) == { i \in 1..Len(o.topo) : OConsensus(o.topo[i]) /\ ~(OPos(o, o.marker) >= i) }
\* the known finding presupposes that the later snapshot really was written after the uncovered one
OC21(o) == \/ OUncovered(o) = {}
           \/ "C21-1" \in KnownC /\ ord.ok /\ \A i \in OUncovered(o) : i < Len(o.topo)
OC21Known(o) == OUncovered(o) # {}

OC22Good(o) ==
    /\ o.setup = "ok" /\ o.invalid = 0 /\ ~o.valerr /\ o.outsok /\ o.posok
    /\ SeqToSet(o.final) \subseteq SeqToSet(o.body)
    /\ SeqToSet(o.topo) \subseteq SeqToSet(o.final)
OC22KF(o) == "C22-1" \in KnownC /\ \E s \in SnapC : DefC[s].kind = "accept" /\ o.head[DefC[s].chain] = 0
OC22(o) == OC22Good(o) \/ OC22KF(o)

FullRestart ==
    /\ N!Restart
    /\ LET o == Ev.obs IN
        /\ o.marker = marker'
        /\ o.topo = topo'
        /\ \A c \in ChainC : c \in DOMAIN o.head => o.head[c] = head'[c]
        /\ SeqToSet(o.body) = body
        /\ SeqToSet(o.final) = SeqToSet(topo)
        /\ (o.setup = "ok") = ~broken'
        /\ (~broken' => OC22Good(o))

Restart ==
    /\ IsEvent("Restart")
    /\ CASE Mode = "full" -> FullRestart
         [] Mode = "C21"  -> OC21(Ev.obs) /\ UNCHANGED nvars
         [] Mode = "C22"  -> OC22(Ev.obs) /\ UNCHANGED nvars
         [] Mode = "C35"  -> Ev.obs.posok /\ UNCHANGED nvars
    /\ UNCHANGED ord

\* the behaviour asked handler s to write its snapshot while another handler was inside Node.TopoWrite
\* and the node made it wait (the recorded execution ends there)
Blocked ==
    /\ IsEvent("Blocked")
    /\ (Mode = "full" => topoLock \notin {"-", Ev.s} /\ N!NextPhase(Ev.s) = 7)
    /\ UNCHANGED nvars /\ UNCHANGED ord

End ==
    /\ IsEvent("End")
    /\ (Mode = "full" => \A s \in DOMAIN Ev.rest : Ev.rest[s].res = "ok")
    /\ UNCHANGED nvars /\ UNCHANGED ord

Next == Reset \/ Call \/ Crash \/ Restart \/ Blocked \/ End
Spec == Init /\ [][Next]_<<l, nvars, ord>>

HW == HighWaterOf(l)
Accepted == TraceAcceptedAt

Inv == (Mode = "full") => (N!C21Inv /\ N!C22Inv /\ N!Consistent)
=============================================================================
