SPECIFICATION Spec
CONSTANTS
  Snap <- SnapO
  Def <- DefO
  Chain <- ChainO
  Head0 <- HeadO
  MaxCrash = 1
  MaxTries = 3
  AcceptRepair = TRUE
  LockedMarker = TRUE
  Known <- KnownAll
INVARIANT C21Inv
INVARIANT C22Inv
INVARIANT Consistent
CHECK_DEADLOCK FALSE
