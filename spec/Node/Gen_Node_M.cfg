SPECIFICATION Spec
CONSTANTS
  Snap <- SnapM
  Def <- DefM
  Chain <- ChainM
  Head0 <- HeadM
  MaxCrash = 1
  MaxTries = 3
  LockedMarker = TRUE
  Known <- KnownAll
INVARIANT C21Inv
INVARIANT C22Inv
INVARIANT Consistent
ACTION_CONSTRAINT Emit
CHECK_DEADLOCK FALSE
