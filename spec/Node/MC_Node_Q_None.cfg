SPECIFICATION Spec
CONSTANTS
  Snap <- SnapQ
  Def <- DefQ
  Chain <- ChainQ
  Head0 <- HeadQ
  MaxCrash = 1
  MaxTries = 3
  AcceptRepair = TRUE
  LockedMarker = TRUE
  Known <- KnownNone
INVARIANT C21Inv
INVARIANT C22Inv
INVARIANT Consistent
CHECK_DEADLOCK FALSE
