SPECIFICATION Spec
CONSTANTS
  Snap <- SnapA
  Def <- DefA
  Chain <- ChainA
  Head0 <- HeadA
  MaxCrash = 1
  MaxTries = 3
  AcceptRepair = TRUE
  LockedMarker = TRUE
  Known <- KnownNone
INVARIANT C21Inv
INVARIANT C22Inv
INVARIANT Consistent
CHECK_DEADLOCK FALSE
