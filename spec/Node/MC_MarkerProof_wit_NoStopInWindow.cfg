SPECIFICATION Spec
CONSTRAINT Bound
INVARIANT NoStopInWindow
CHECK_DEADLOCK FALSE
