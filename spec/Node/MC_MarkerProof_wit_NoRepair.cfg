SPECIFICATION Spec
CONSTRAINT Bound
PROPERTY NoRepair
CHECK_DEADLOCK FALSE
