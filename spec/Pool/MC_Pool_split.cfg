SPECIFICATION Spec
CONSTANTS
  K = 4
  SizeLimit = 3
  PeerLimit = 2
  RingCap = 1
  CacheCap = 0
  Universe <- UC
  H0 = 1
  Peers = {1}
  Fine = TRUE
  UseRing = FALSE
  MaxWritten = 99
  Split = TRUE
  SelfFeed = FALSE
VIEW View
INVARIANT Inv
PROPERTY StepProp
CHECK_DEADLOCK FALSE
