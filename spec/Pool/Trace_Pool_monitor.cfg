SPECIFICATION Spec
CONSTANTS
  Mode = "monitor"
  K = 800
  SizeLimit = 1024
  PeerLimit = 3
  RingCap = 800
  CacheCap = 256
CONSTRAINT HW
INVARIANT Inv
INVARIANT MonRetention
INVARIANT MonPure
INVARIANT MonIndex
INVARIANT MonHandover
INVARIANT MonLive
POSTCONDITION Accepted
CHECK_DEADLOCK FALSE
