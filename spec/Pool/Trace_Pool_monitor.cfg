SPECIFICATION Spec
CONSTANTS
  Mode = "monitor"
  K = 800
  SizeLimit = 1024
  PeerLimit = 3
  RingCap = 800
  CacheCap = 256
CONSTRAINT HW
INVARIANT Inv
POSTCONDITION Accepted
CHECK_DEADLOCK FALSE
