------------------------------ MODULE MC_Pool ------------------------------
(* Bounded models of spec/Pool/Pool.tla (engines E3 and E1).                 *)
(*   Fine = TRUE : the poll goroutine moves one micro step at a time and the  *)
(*                 ring consumer / arrivals interleave everywhere (E3).       *)
(*   Fine = FALSE: the poll goroutine moves from one observable point to the  *)
(*                 next (RunPoll) - the granularity at which the harness can  *)
(*                 stop the real loop; used for edge emission (E1).           *)
(*   UseRing     : arrivals go through the ring (Recv, Consume) or are        *)
(*                 delivered in one step (Recv immediately followed by        *)
(*                 Consume).                                                  *)
(*   Split       : appendFinalSnapshot reads FinalIndex in one step and the   *)
(*                 head round (and everything else) in a later one.           *)
(*   SelfFeed    : snapshots also enter the live round without the pool (the  *)
(*                 node's own chain: cosiHandleResponse -> AddSnapshot; or a  *)
(*                 live round loaded from the store after a restart).         *)
EXTENDS Pool, Json

CONSTANTS Universe, H0, Peers, Fine, UseRing, MaxWritten, Split, SelfFeed

\* --- universes: id -> [round, kind, closes] ----------------------------------------------
G(r, c) == [round |-> r, kind |-> "good", closes |-> c]
B(r, c) == [round |-> r, kind |-> "bad", closes |-> c]

\* K = 3, head 1: rounds 1, 2 near; 3 = last admitted round; 4 reuses the slot of round 1
UA == <<G(1, {}), G(1, {}), G(2, {1, 2}), B(3, {}), B(4, {})>>
\* K = 4: two live-round snapshots, a good, a badly certified and a forking opener of round 2,
\* round 3, far rounds 4..6, an expired one
UB == <<G(1, {}), G(1, {}), G(2, {1, 2}), B(2, {1, 2}), G(2, {1}), G(3, {3}), B(4, {}), B(5, {}), B(6, {}), B(0, {})>>
\* K = 3, three rounds in a row with one snapshot each and the far rounds behind them
UC == <<G(1, {}), G(2, {1}), G(3, {2}), B(4, {}), B(5, {}), B(6, {})>>
\* K = 3, size limit: four snapshots of one far round, three of the live round
UD == <<G(1, {}), G(1, {}), G(1, {}), B(3, {}), B(3, {}), B(3, {}), B(3, {})>>

SnapIds == DOMAIN Universe
GoodIds == { s \in SnapIds : Universe[s].kind = "good" }

VARIABLES S, adm, todo, hand, last, cons
vars == <<S, adm, todo, hand, last, cons>>
NoCons == [fi |-> -1, p |-> 0, s |-> 0]

NoOp == [op |-> "Init", p |-> 0, s |-> 0]
Init == /\ S = InitState(Universe, H0)
        /\ adm = {} /\ todo = {} /\ hand = {}
        /\ last = [o |-> NoOp, res |-> "ok"]
        /\ cons = NoCons

Unfin(sl) == { sl.arr[j].id : j \in { x \in 1..sl.size : ~sl.arr[x].fin } }
FirstUnfin(sl) ==
    LET js == { x \in 1..sl.size : ~sl.arr[x].fin } IN
    IF js = {} THEN {} ELSE { sl.arr[CHOOSE x \in js : \A y \in js : x <= y].id }

\* history of one micro step of the poll goroutine
MicroHist(A, T, td, hd) ==
    [todo |-> IF A.pc = "idle" THEN {}
              ELSE IF A.pc = "slot" /\ T.pc = "snap"
                   THEN td \cup (IF A.pi = 0 THEN Unfin(T.pool[T.pidx]) ELSE FirstUnfin(T.pool[T.pidx]))
                   ELSE td,
     hand |-> IF A.pc = "idle" THEN {} ELSE IF A.pc = "offer" THEN hd \cup {Cur(A)} ELSE hd]

RECURSIVE RunHist(_, _, _)
RunHist(A, td, hd) ==
    LET T == PStep(A)
        h == MicroHist(A, T, td, hd)
    IN IF T.pc \in {"mid", "idle"} THEN [S |-> T, todo |-> h.todo, hand |-> h.hand]
       ELSE RunHist(T, h.todo, h.hand)

Env(o, r) ==
    /\ S' = r.S
    /\ last' = [o |-> o, res |-> r.res]
    /\ UNCHANGED <<todo, hand>>
    /\ o.op \notin {"Read", "Write"} => UNCHANGED cons

DoRecv == \E p \in Peers, s \in SnapIds :
    /\ UseRing
    /\ Env([op |-> "Recv", p |-> p, s |-> s], Recv(S, p, s))
    /\ UNCHANGED adm

DoConsume ==
    /\ UseRing /\ S.ring # <<>>
    /\ LET r == Consume(S) IN
         /\ Env([op |-> "Consume", p |-> 0, s |-> 0], r)
         /\ adm' = IF r.res \in {"new", "peer", "dup"} THEN adm \cup {Head(S.ring).s} ELSE adm

\* AppendFinalSnapshot immediately followed by the consumer's turn
\* (cosi.go:VerifyAndQueueAppendSnapshotFinalization does not offer a snapshot that is in the live round already)
Offered(s) == SelfFeed => s \notin PRange(S.hround)

DoDeliver == \E p \in Peers, s \in SnapIds :
    /\ ~UseRing /\ ~Split /\ Offered(s)
    /\ LET r1 == Recv(S, p, s)
           r  == IF r1.res = "queued" THEN Consume(r1.S) ELSE r1 IN
         /\ Env([op |-> "Deliver", p |-> p, s |-> s], r)
         /\ adm' = IF r.res \in {"new", "peer", "dup"} THEN adm \cup {s} ELSE adm

\* appendFinalSnapshot in two steps: fi := chain.FinalIndex ... start = chain.State.CacheRound.Number
DoSplitRead == \E p \in Peers, s \in SnapIds :
    /\ Split /\ cons.fi = -1 /\ Offered(s)
    /\ S.head <= RoundOf(S, s)          \* AppendFinalSnapshot lets it through
    /\ cons' = [fi |-> S.fi, p |-> p, s |-> s]
    /\ Env([op |-> "Read", p |-> p, s |-> s], [res |-> "ok", S |-> S])
    /\ UNCHANGED adm
DoSplitWrite ==
    /\ Split /\ cons.fi # -1
    /\ LET r == AppendFinalAt(S, cons.fi, cons.p, cons.s) IN
         /\ Env([op |-> "Write", p |-> cons.p, s |-> cons.s], r)
         /\ adm' = IF r.res \in {"new", "peer", "dup"} THEN adm \cup {cons.s} ELSE adm
    /\ cons' = NoCons

\* a snapshot of the live round is added without passing through the pool (poll goroutine, between iterations)
DoSelfAdd == \E s \in GoodIds :
    /\ SelfFeed /\ S.pc = "idle"
    /\ RoundOf(S, s) = S.head /\ Closes(S, s) = S.closed /\ s \notin PRange(S.written)
    /\ s \notin adm /\ cons.s # s
    /\ Env([op |-> "SelfAdd", p |-> 0, s |-> s],
           [res |-> "ok", S |-> [S EXCEPT !.hround = Append(@, s), !.written = Append(@, s)]])
    /\ UNCHANGED adm

DoTxOne(s) ==
    /\ s \notin S.txs
    /\ Env([op |-> "Tx", p |-> 0, s |-> s], TxArrive(S, s))
    /\ UNCHANGED adm
DoTx == \E s \in GoodIds : DoTxOne(s)

DoCosi ==
    /\ Env([op |-> "Cosi", p |-> 0, s |-> 0], Cosi(S))
    /\ UNCHANGED adm

DoExtAdv ==
    /\ S.pc = "idle"
    /\ Env([op |-> "ExtAdv", p |-> 0, s |-> 0], ExtAdv(S))
    /\ UNCHANGED adm

DoPoll ==
    /\ Len(S.written) < MaxWritten \/ S.pc # "idle"
    /\ IF Fine
       THEN LET T == PStep(S)
                h == MicroHist(S, T, todo, hand) IN
              S' = T /\ todo' = h.todo /\ hand' = h.hand
       ELSE LET r == RunHist(S, todo, hand) IN
              S' = r.S /\ todo' = r.todo /\ hand' = r.hand
    /\ last' = [o |-> [op |-> "P", p |-> 0, s |-> 0], res |-> S'.pc]
    /\ UNCHANGED <<adm, cons>>

Next == DoRecv \/ DoConsume \/ DoDeliver \/ DoSplitRead \/ DoSplitWrite \/ DoSelfAdd \/ DoTx \/ DoCosi \/ DoExtAdv \/ DoPoll

Spec == Init /\ [][Next]_vars
View == <<S, adm, todo, hand, cons>>

\* fairness for the liveness statement: the poll goroutine runs, transactions arrive
FairSpec == Spec /\ WF_vars(DoPoll) /\ \A s \in GoodIds : WF_vars(DoTxOne(s))

-----------------------------------------------------------------------------
TypeOK == /\ S.fi \in 0..(K - 1) /\ S.cq \in 0..CacheCap /\ Len(S.ring) <= RingCap
          /\ S.pc \in {"idle", "slot", "snap", "offer", "mid", "cache"}

Inv == /\ TypeOK
       /\ Retention(S, adm)
       /\ HandoverOK(S) /\ MidOK(S)
       /\ SlotPure(S)
       /\ IndexOK(S)
       /\ NoRetry(S)
       /\ ~Split => last.res # "retry"
       /\ FinFlagOK(S)
       \* every entry that was due in this iteration has been handed to the handler when the iteration ends
       /\ S.pc \in {"cache", "idle"} => todo \subseteq hand
       \* the poll goroutine never reads a stale array entry
       /\ S.pc \in {"snap", "offer", "mid"} => S.pn <= S.pool[S.pidx].size /\ (S.pc # "snap" => S.pj <= S.pn)

StepProp == [][IndexStep(S, S')]_vars
NoSizeErr == [][last'.res # "sizeerr"]_vars

\* an admitted, well-formed snapshot of the live round is written or its round is closed
Live == \A s \in GoodIds :
           ((s \in adm /\ RoundOf(S, s) = S.head /\ Closes(S, s) = S.closed)
              ~> (s \in PRange(S.written) \/ RoundOf(S, s) < S.head))

\* --- non-vacuity witnesses (properties that must be violated) ---------------------------------
ReachPoolAdvance == [][~(last'.o.op = "P" /\ S'.fc = S.fc + 1)]_vars
ReachSlotReuse == [][~(\E i \in DOMAIN S.pool : i \in DOMAIN S'.pool /\ S.pool[i].num >= 0 /\ S'.pool[i].num = S.pool[i].num + K)]_vars
ReachFar == [][last'.res # "far"]_vars
ReachExpired == [][last'.res # "expired"]_vars
ReachPeerLimit == [][~(last'.res = "dup" /\ \E i \in DOMAIN S.pool : \E j \in 1..S.pool[i].size :
                          S.pool[i].arr[j].id = last'.o.s /\ Len(S.pool[i].arr[j].peers) = PeerLimit
                          /\ last'.o.p \notin PRange(S.pool[i].arr[j].peers))]_vars
ReachMissingTx == [][~(S.pc = "mid" /\ Cur(S) \notin S.txs)]_vars
ReachWritten3 == Len(S.written) < 3
ReachSecondPeerHandover == [][~(S.pc = "mid" /\ S.pk = 2)]_vars
ReachAdvanceBadCert == [][~(last'.o.op = "P" /\ S'.fc = S.fc + 1 /\ S'.pc = "idle")]_vars
ReachFork == [][~(last'.o.op = "P" /\ S'.fc = S.fc + 1 /\ S'.closed = {1})]_vars
ReachSizeErr == [][last'.res # "sizeerr"]_vars
ReachRetry == [][last'.res # "retry"]_vars
ReachRingFull == [][last'.res # "full"]_vars
ReachDropped == [][last'.res # "dropped"]_vars

-----------------------------------------------------------------------------
PoolSeq(T) == [k \in 1..K |-> Slot(T, k - 1)]
Compact(T) == [pool |-> PoolSeq(T), fi |-> T.fi, fc |-> T.fc, head |-> T.head, closed |-> T.closed,
               hround |-> T.hround, written |-> T.written, txs |-> T.txs, ring |-> T.ring, cq |-> T.cq,
               dirty |-> T.dirty, pc |-> T.pc, pi |-> T.pi, pidx |-> T.pidx, pn |-> T.pn, pj |-> T.pj,
               pk |-> T.pk, pkn |-> T.pkn]

\* the first edges of a behaviour also carry the universe (the driver builds the real snapshots from it)
RECURSIVE SetToSeq(_)
SetToSeq(X) == IF X = {} THEN <<>>
               ELSE LET m == CHOOSE a \in X : \A b \in X : a <= b IN <<m>> \o SetToSeq(X \ {m})
UJson == [i \in DOMAIN Universe |-> [round |-> Universe[i].round, kind |-> Universe[i].kind,
                                      closes |-> SetToSeq(Universe[i].closes)]]
Emit == PrintT("EDGE " \o ToJson([from |-> Compact(S), o |-> last'.o, ok |-> last'.res, to |-> Compact(S'),
                                  u |-> IF S = InitState(Universe, H0) THEN UJson ELSE <<>>, k |-> K]))
=============================================================================
