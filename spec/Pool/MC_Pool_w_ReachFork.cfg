SPECIFICATION Spec
CONSTANTS
  K = 4
  SizeLimit = 3
  PeerLimit = 2
  RingCap = 1
  CacheCap = 0
  Universe <- UB
  H0 = 1
  Peers = {1}
  Fine = FALSE
  UseRing = FALSE
  MaxWritten = 99
  Split = FALSE
  SelfFeed = FALSE
VIEW View
PROPERTY ReachFork
CHECK_DEADLOCK FALSE
