SPECIFICATION Spec
CONSTANTS
  K = 3
  SizeLimit = 3
  PeerLimit = 1
  RingCap = 1
  CacheCap = 0
  Universe <- UA
  H0 = 1
  Peers = {1, 2}
  Fine = FALSE
  UseRing = FALSE
  MaxWritten = 99
  Split = FALSE
  SelfFeed = FALSE
VIEW View
PROPERTY ReachPeerLimit
CHECK_DEADLOCK FALSE
