----------------------------- MODULE Trace_Pool -----------------------------
(***************************************************************************)
(* Trace specification of the chain pools (engine E2) for the events       *)
(* recorded by harness/inpkg/kernel/zz_verif_pool_test.go from a real      *)
(* kernel.Chain:                                                           *)
(*  {"ev":"Reset","K","sizelimit","cachecap","ringcap","h0","u":[{round,   *)
(*   kind,closes}],"obs":O}      a fresh node; u = the snapshots by id      *)
(*  {"ev":"Op","o":{op,p,s},"res":..,"obs":O}   Recv | Consume | Tx | Cosi  *)
(*                               | ExtAdv on the real functions             *)
(*  {"ev":"Op","o":{op:"P"},"at":"hand"|"end"|"panic","s":id,"obs":O}       *)
(*                               the real poll loop ran to its next         *)
(*                               observable point: the handler looks up the *)
(*                               transaction of snapshot s / the iteration  *)
(*                               ended                                      *)
(*  O = head (memory), dhead (durable), fi, fc, dirty, ring, cq, hround     *)
(*      (ids of the live round, sorted), written (ids in write order),      *)
(*      slots [{i, num, size, idx, from, snaps: the entries from..size as   *)
(*      {id, peers, fin, nf}}]                                              *)
(*                                                                         *)
(* Mode "full":    every event is the specification's action with the same *)
(*                 result and the same state (Pool!Recv, Consume, Cosi,    *)
(*                 TxArrive, ExtAdv, RunPoll), constants as in the code.   *)
(* Mode "monitor": the statements of Pool.tla judged on the observations   *)
(*                 alone: retention, handover window, no handover after    *)
(*                 the write, slot purity, index lockstep, live round      *)
(*                 without repeats.                                        *)
(* Mode "c19":     only what C19's text implies: the live round fed by the *)
(*                 pool holds no snapshot twice.                           *)
(***************************************************************************)
EXTENDS TraceLib, Pool

CONSTANTS Mode

VARIABLES l, S, P, J
vars == <<l, S, P, J>>

Ev == Trace[l]
IsEvent(name) == l <= TraceLen /\ Ev.ev = name /\ l' = l + 1

UniverseOf(e) == [i \in 1..Len(e.u) |-> [round |-> e.u[i].round, kind |-> e.u[i].kind, closes |-> SeqToSet(e.u[i].closes)]]

FromOf(size) == IF size > 8 THEN size - 7 ELSE 1

SlotMatches(sl, os) ==
    /\ os.num = sl.num /\ os.size = sl.size /\ os.idx = sl.size
    /\ os.from = FromOf(sl.size)
    /\ Len(os.snaps) = sl.size - os.from + 1
    /\ \A j \in 1..Len(os.snaps) :
          LET e  == sl.arr[os.from + j - 1]
              oe == os.snaps[j] IN
            oe.id = e.id /\ oe.peers = e.peers /\ oe.fin = e.fin /\ oe.nf = Len(e.peers)

ObsMatches(T, o) ==
    /\ o.head = T.head /\ o.dhead = T.head /\ o.fi = T.fi /\ o.fc = T.fc
    /\ o.dirty = T.dirty /\ o.ring = Len(T.ring) /\ o.cq = T.cq
    /\ SeqToSet(o.hround) = PRange(T.hround) /\ Len(o.hround) = Len(T.hround)
    /\ o.written = T.written
    /\ { o.slots[k].i : k \in DOMAIN o.slots } = DOMAIN T.pool
    /\ Len(o.slots) = Cardinality(DOMAIN T.pool)
    /\ \A k \in DOMAIN o.slots : SlotMatches(T.pool[o.slots[k].i], o.slots[k])

\* what the real call returns for a result of the specification
Coarse(op, res) ==
    CASE res = "retry" -> "retry"
      [] res = "empty" -> "empty"
      [] res = "busy" -> "busy"
      [] res = "sizeerr" -> "err"
      [] res = "err" -> "err"
      [] res = "full" /\ op = "Recv" -> "err"
      [] OTHER -> "ok"

Apply(T, o) ==
    CASE o.op = "Recv" -> Recv(T, o.p, o.s)
      [] o.op = "Consume" -> Consume(T)
      [] o.op = "Tx" -> TxArrive(T, o.s)
      [] o.op = "Cosi" -> Cosi(T)
      [] o.op = "ExtAdv" -> IF T.pc = "idle" THEN ExtAdv(T) ELSE [res |-> "busy", S |-> T]

-----------------------------------------------------------------------------
(* monitor: statements on two consecutive observations *)
IdsOf(os) == { os.snaps[j].id : j \in DOMAIN os.snaps }

MRetention(p, o) ==
    \A k \in DOMAIN p.slots : \A j \in DOMAIN p.slots[k].snaps :
       LET ps == p.slots[k]
           id == ps.snaps[j].id IN
       (id # 0 /\ S.u[id].round >= o.head) =>
          \E k2 \in DOMAIN o.slots : /\ o.slots[k2].i = ps.i /\ o.slots[k2].num = ps.num
                                     /\ (o.slots[k2].from = 1 => id \in IdsOf(o.slots[k2]))

MPure(o) ==
    \A k \in DOMAIN o.slots :
       LET os == o.slots[k] IN
         /\ os.i = (os.num - S.h0) % K
         /\ \A j \in DOMAIN os.snaps : os.snaps[j].id # 0 => S.u[os.snaps[j].id].round = os.num
         /\ \A a, b \in DOMAIN os.snaps : os.snaps[a].id = os.snaps[b].id => a = b

MIndex(p, o) ==
    /\ o.fc \in {p.fc, p.fc + 1}
    /\ o.head - p.head = o.fc - p.fc
    /\ o.fi = o.fc % K

MHand(p, o, e) ==
    (e.o.op = "P" /\ e.at = "hand") =>
        /\ e.s # 0
        /\ S.u[e.s].round = o.head
        /\ S.u[e.s].round \in {p.head, p.head + 1}
        /\ e.s \notin SeqToSet(p.written)

MLive(o) == \A a, b \in DOMAIN o.hround : o.hround[a] = o.hround[b] => a = b

-----------------------------------------------------------------------------
\* J = <<previous observation, observation, event>> of the last judged event (monitor modes)
Init == l = 1 /\ S = InitState(<<>>, 0) /\ P = [head |-> 0] /\ J = <<>>

Reset ==
    /\ IsEvent("Reset")
    /\ LET T == InitState(UniverseOf(Ev), Ev.h0) IN
         /\ Mode = "full" => /\ Ev.K = K /\ Ev.sizelimit = SizeLimit /\ Ev.ringcap = RingCap /\ Ev.cachecap = CacheCap
                             /\ ObsMatches(T, Ev.obs)
         /\ S' = T
    /\ P' = Ev.obs /\ J' = <<>>

Op ==
    /\ IsEvent("Op")
    /\ Ev.o.op # "P"
    /\ IF Mode = "full"
       THEN LET r == Apply(S, Ev.o) IN
              /\ Ev.res = Coarse(Ev.o.op, r.res)
              /\ ObsMatches(r.S, Ev.obs)
              /\ S' = r.S /\ J' = <<>>
       ELSE S' = S /\ J' = <<P, Ev.obs, Ev>>
    /\ P' = Ev.obs

Poll ==
    /\ IsEvent("Op")
    /\ Ev.o.op = "P"
    /\ IF Mode = "full"
       THEN LET T == RunPoll(S) IN
              /\ Ev.at = "hand" => T.pc = "mid" /\ Cur(T) = Ev.s
              /\ Ev.at = "end" => T.pc = "idle"
              /\ Ev.at \in {"hand", "end"}
              /\ ObsMatches(T, Ev.obs)
              /\ S' = T /\ J' = <<>>
       ELSE S' = S /\ J' = <<P, Ev.obs, Ev>>
    /\ P' = Ev.obs

Next == Reset \/ Op \/ Poll
Spec == Init /\ [][Next]_vars

HW == HighWaterOf(l)
Accepted == TraceAcceptedAt

\* the statements of Pool.tla on the specification's own state (full mode)
Inv == Mode = "full" => (SlotPure(S) /\ IndexOK(S) /\ NoRetry(S) /\ FinFlagOK(S) /\ HandoverOK(S) /\ MidOK(S))

\* the statements on the observations (monitor modes), one invariant each
Judged == Len(J) = 3
MonRetention == (Mode = "monitor" /\ Judged) => MRetention(J[1], J[2])
MonPure      == (Mode = "monitor" /\ Judged) => MPure(J[2])
MonIndex     == (Mode = "monitor" /\ Judged) => MIndex(J[1], J[2])
MonHandover  == (Mode = "monitor" /\ Judged) => MHand(J[1], J[2], J[3])
MonLive      == (Mode \in {"monitor", "c19"} /\ Judged) => MLive(J[2])
=============================================================================
