SPECIFICATION Spec
CONSTANTS
  K = 3
  SizeLimit = 3
  PeerLimit = 2
  RingCap = 1
  CacheCap = 0
  Universe <- UA
  H0 = 1
  Peers = {1, 2}
  Fine = FALSE
  UseRing = FALSE
  MaxWritten = 99
  Split = FALSE
  SelfFeed = FALSE
VIEW View
PROPERTY ReachFar
CHECK_DEADLOCK FALSE
