SPECIFICATION FairSpec
CONSTANTS
  K = 4
  SizeLimit = 3
  PeerLimit = 2
  RingCap = 1
  CacheCap = 0
  Universe <- UC
  H0 = 1
  Peers = {1}
  Fine = FALSE
  UseRing = FALSE
  MaxWritten = 99
  Split = FALSE
  SelfFeed = FALSE
VIEW View
INVARIANT Inv
PROPERTY StepProp
PROPERTY Live
CHECK_DEADLOCK FALSE
