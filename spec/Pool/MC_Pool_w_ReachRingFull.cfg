SPECIFICATION Spec
CONSTANTS
  K = 4
  SizeLimit = 3
  PeerLimit = 2
  RingCap = 2
  CacheCap = 0
  Universe <- UC
  H0 = 1
  Peers = {1}
  Fine = FALSE
  UseRing = TRUE
  MaxWritten = 99
  Split = FALSE
  SelfFeed = FALSE
VIEW View
PROPERTY ReachRingFull
CHECK_DEADLOCK FALSE
