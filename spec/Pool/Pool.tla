-------------------------------- MODULE Pool --------------------------------
(***************************************************************************)
(* Per-chain snapshot pools and the poll loop of kernel/chain.go           *)
(* (growth of the specification, DESIGN.md section 13.5.2; invoked from    *)
(* the thorough tier of C19).                                              *)
(*                                                                         *)
(* What is modelled (code anchors, all in kernel/chain.go unless noted):   *)
(*                                                                         *)
(*  FinalPool [FinalPoolSlotsLimit]*ChainRound, FinalIndex, FinalCount     *)
(*     S.pool (sparse function slot index -> [num, size, arr]), S.fi, S.fc.*)
(*     arr is the backing array Snapshots[]: a reset of a slot sets        *)
(*     Size = 0 and keeps the array (the code does not clear it either).   *)
(*  finalActionsRing (channel, capacity FinalPoolSlotsLimit)    S.ring     *)
(*  CachePool (channel, capacity CachePoolSnapshotsLimit)       S.cq       *)
(*  finalPoolDirty                                              S.dirty    *)
(*  chain.State.CacheRound.Number                               S.head     *)
(*  chain.State.CacheRound.Snapshots (the live round)           S.hround   *)
(*  the set of snapshots the head's self reference commits to   S.closed   *)
(*  snapshots written to the graph, in order                    S.written  *)
(*  transactions present in the store                           S.txs      *)
(*                                                                         *)
(*  Recv      Chain.AppendFinalSnapshot: drop a snapshot older than the    *)
(*            head, else offer it to the ring ("full" when the ring is).   *)
(*  Consume   one turn of ConsumeFinalActions: take the oldest ring entry  *)
(*            and run appendFinalSnapshot = AppendFinal below: index/head  *)
(*            agreement ("retry"), admission window [head, head + K)       *)
(*            ("expired", "far"), slot = (round - head + fi) % K, reuse of *)
(*            a slot holding another round (reset), round-size limit       *)
(*            ("sizeerr": the caller panics), duplicates (a known hash     *)
(*            only adds an unknown peer while fewer than PeerLimit peers   *)
(*            are recorded), dirty flag exactly when something changed.    *)
(*  Cosi      Chain.AppendCosiAction: CachePool.Offer, silently dropped    *)
(*            when the pool is full.                                       *)
(*  Tx        a transaction arrives (store.CacheStoreTransaction).         *)
(*  ExtAdv    the round transition on the proposal path                    *)
(*            (cosi.go:checkAnnouncementOrChallenge ->                     *)
(*            graph.go:startNewRoundAndPersist -> assignNewGraphRound ->   *)
(*            StepForward); it runs on the poll goroutine (a CachePool     *)
(*            action), hence only between two iterations.                  *)
(*  PStep     the poll goroutine QueuePollSnapshots, one micro step:       *)
(*      idle  -> start of an iteration (dirty := false)                    *)
(*      slot  -> index := (FinalIndex + i) % K for i = 0, 1; a nil slot or *)
(*               a slot whose round is not head or head + 1 is skipped;    *)
(*               round.Size is read once (Go range over an int)            *)
(*      snap  -> entries marked finalized are skipped; for i = 1 only the  *)
(*               first entry not yet finalized is handed over              *)
(*      offer -> cosiHook(Finalization, peer, snapshot): first half of     *)
(*               cosi.go:cosiHandleFinalization = prepareFinalization      *)
(*               (round older than head / beyond head + 1: refused; round  *)
(*               head + 1: startNewRoundAndPersist(.., finalized = true)   *)
(*               succeeds iff the live round is not empty and the          *)
(*               snapshot's self reference is the hash of the live round;  *)
(*               then head + 1, StepForward) and verifyFinalization        *)
(*      mid   -> second half: transactions present, references equal to    *)
(*               the head's, ValidateSnapshot (no duplicate), AddSnapshot; *)
(*               ps.finalized := result; next peer while not finalized     *)
(*      cache -> the CachePool is drained; end of the iteration            *)
(*    The handler (C09, C19, C20 specify it) is abstracted to the facts    *)
(*    that decide its result here: round, certificate kind, transactions   *)
(*    present, closed set of the self reference.                           *)
(*                                                                         *)
(* Granularity. ConsumeFinalActions and QueuePollSnapshots are two         *)
(* goroutines that share FinalPool/FinalIndex without a lock.  The model   *)
(* takes appendFinalSnapshot as one step and interleaves it between the    *)
(* micro steps of the poll goroutine.  appendFinalSnapshot itself reads    *)
(* FinalIndex and then CacheRound.Number: a round transition between the   *)
(* two reads is what its "cache and index malformed" retry is for.  With   *)
(* atomic reads the retry never happens (invariant NoRetry); MC_Pool with  *)
(* Split = TRUE separates the two reads: the retry becomes reachable and   *)
(* every other statement still holds for a chain whose rounds are fed      *)
(* through the pool (the slot of the closed round is then never nil).      *)
(*                                                                         *)
(* How the real loop is stepped by the harness                             *)
(* (harness/inpkg/kernel/zz_verif_pool_test.go): the real                  *)
(* QueuePollSnapshots runs one iteration in its own goroutine; the storage *)
(* wrapper (around vnProxy of zz_verif_node_test.go) parks it at           *)
(* ReadTransaction of a handed-over snapshot's transaction (= state "mid") *)
(* so that the harness can run the real appendFinalSnapshot etc. in        *)
(* between; the iteration ends because a marker action at the tail of the  *)
(* CachePool makes the wrapper clear chain.running.  The ring consumer is  *)
(* not run as a goroutine: the harness takes the oldest entry with         *)
(* ActionBuffer.Poll and calls the real appendFinalSnapshot.               *)
(***************************************************************************)
EXTENDS Integers, Sequences, FiniteSets, TLC

CONSTANTS K,            \* FinalPoolSlotsLimit (code: 800)
          SizeLimit,    \* FinalPoolRoundSizeLimit (code: 1024)
          PeerLimit,    \* peers recorded per snapshot (code: 3)
          RingCap,      \* capacity of finalActionsRing (code: FinalPoolSlotsLimit)
          CacheCap      \* CachePoolSnapshotsLimit (code: 256)

PRange(f) == { f[x] : x \in DOMAIN f }

NilSlot == [num |-> -1, size |-> 0, arr |-> <<>>]
Slot(S, i) == IF i \in DOMAIN S.pool THEN S.pool[i] ELSE NilSlot
SetSlot(S, i, sl) == [x \in (DOMAIN S.pool) \cup {i} |-> IF x = i THEN sl ELSE S.pool[x]]

\* the universe of snapshots: S.u[id] = [round, kind ("good" | "bad"), closes (set of ids)]
RoundOf(S, s) == S.u[s].round
KindOf(S, s) == S.u[s].kind
Closes(S, s) == S.u[s].closes

Ids(sl) == { sl.arr[j].id : j \in 1..sl.size }
PosOf(sl, s) == CHOOSE j \in 1..sl.size : sl.arr[j].id = s
PutAt(arr, n, e) == IF n <= Len(arr) THEN [arr EXCEPT ![n] = e] ELSE Append(arr, e)

InitState(u, h0) ==
    [u |-> u, h0 |-> h0, pool |-> [x \in {} |-> NilSlot], fi |-> 0, fc |-> 0, head |-> h0,
     closed |-> {}, hround |-> <<>>, written |-> <<>>, txs |-> {}, ring |-> <<>>, cq |-> 0,
     dirty |-> FALSE, pc |-> "idle", pi |-> 0, pidx |-> 0, pn |-> 0, pj |-> 0, pk |-> 0, pkn |-> 0]

-----------------------------------------------------------------------------
(* chain.go:appendFinalSnapshot; fi0 = the value of FinalIndex it read first (fi := chain.FinalIndex),
   the head round is read after it *)
AppendFinalAt(S, fi0, p, s) ==
    LET r     == RoundOf(S, s)
        start == S.head
        pr    == Slot(S, fi0)
    IN
    IF ~(pr.num = -1 \/ pr.num = start \/ pr.num + K = start) THEN [res |-> "retry", S |-> S]
    ELSE IF r < start THEN [res |-> "expired", S |-> S]
    ELSE IF r - start >= K THEN [res |-> "far", S |-> S]
    ELSE
      LET off == (r - start + fi0) % K
          old == Slot(S, off)
          sl  == IF old.num = -1 THEN [num |-> r, size |-> 0, arr |-> <<>>]
                 ELSE IF old.num # r THEN [old EXCEPT !.num = r, !.size = 0]
                 ELSE old
      IN
      IF sl.size = SizeLimit THEN [res |-> "sizeerr", S |-> S]
      ELSE IF s \notin Ids(sl) THEN
        [res |-> "new",
         S |-> [S EXCEPT !.pool = SetSlot(S, off,
                    [sl EXCEPT !.arr = PutAt(sl.arr, sl.size + 1, [id |-> s, peers |-> <<p>>, fin |-> FALSE]),
                               !.size = sl.size + 1]),
                         !.dirty = TRUE]]
      ELSE
        LET j == PosOf(sl, s)
            e == sl.arr[j]
        IN
        IF Len(e.peers) < PeerLimit /\ p \notin PRange(e.peers)
        THEN [res |-> "peer",
              S |-> [S EXCEPT !.pool = SetSlot(S, off, [sl EXCEPT !.arr[j].peers = Append(e.peers, p)]),
                              !.dirty = TRUE]]
        ELSE [res |-> "dup", S |-> S]

AppendFinal(S, p, s) == AppendFinalAt(S, S.fi, p, s)

(* chain.go:AppendFinalSnapshot *)
Recv(S, p, s) ==
    IF S.head > RoundOf(S, s) THEN [res |-> "dropped", S |-> S]
    ELSE IF Len(S.ring) >= RingCap THEN [res |-> "full", S |-> S]
    ELSE [res |-> "queued", S |-> [S EXCEPT !.ring = Append(@, [p |-> p, s |-> s])]]

(* one turn of chain.go:ConsumeFinalActions; "retry" keeps the entry *)
Consume(S) ==
    IF S.ring = <<>> THEN [res |-> "empty", S |-> S]
    ELSE LET it == Head(S.ring)
             r  == AppendFinal(S, it.p, it.s)
         IN IF r.res = "retry" THEN r
            ELSE [res |-> r.res, S |-> [r.S EXCEPT !.ring = Tail(S.ring)]]

(* chain.go:AppendCosiAction *)
Cosi(S) ==
    IF S.cq < CacheCap THEN [res |-> "queued", S |-> [S EXCEPT !.cq = S.cq + 1]]
    ELSE [res |-> "full", S |-> S]

TxArrive(S, s) == [res |-> "ok", S |-> [S EXCEPT !.txs = @ \cup {s}]]

(* graph.go:assignNewGraphRound with a new final round: head + 1 and chain.go:StepForward *)
Advance(S, closed) ==
    [S EXCEPT !.head = S.head + 1, !.closed = closed, !.hround = <<>>,
              !.fi = (S.fi + 1) % K, !.fc = S.fc + 1]

(* the proposal path: startNewRoundAndPersist(cache, {self: hash of the live round, ..}, ts, false) *)
ExtAdv(S) ==
    IF S.pc = "idle" /\ S.hround # <<>> THEN [res |-> "ok", S |-> Advance(S, PRange(S.hround))]
    ELSE [res |-> "err", S |-> S]

-----------------------------------------------------------------------------
(* chain.go:QueuePollSnapshots, one micro step of the poll goroutine *)
\* (registers that are dead at the target are zeroed: fewer states, same behaviour)
ToCache(S) == [S EXCEPT !.pc = "cache", !.pi = 0, !.pidx = 0, !.pn = 0, !.pj = 0, !.pk = 0, !.pkn = 0]
NextSlot(S) == IF S.pi = 0 THEN [S EXCEPT !.pi = 1, !.pc = "slot", !.pidx = 0, !.pn = 0, !.pj = 0, !.pk = 0, !.pkn = 0]
               ELSE ToCache(S)
EntryDone(S) == IF S.pi # 0 THEN ToCache(S) ELSE [S EXCEPT !.pj = S.pj + 1, !.pc = "snap", !.pk = 0, !.pkn = 0]
CurEntry(S) == S.pool[S.pidx].arr[S.pj]
Cur(S) == CurEntry(S).id

AfterOffer(S, fin) ==
    LET S1 == [S EXCEPT !.pool = SetSlot(S, S.pidx, [S.pool[S.pidx] EXCEPT !.arr[S.pj].fin = fin])]
    IN IF fin \/ S.pk >= S.pkn THEN EntryDone(S1)
       ELSE [S1 EXCEPT !.pk = S.pk + 1, !.pc = "offer"]

\* can the live round be closed by snapshot s of round head + 1 (validateNewRound, finalized path)
CanOpen(S, s) == S.hround # <<>> /\ PRange(S.hround) = Closes(S, s)

\* second half of the handler: TRUE iff the snapshot is added to the live round
Finalizes(S, s) == s \in S.txs /\ Closes(S, s) = S.closed /\ s \notin PRange(S.hround)

PStep(S) ==
    CASE S.pc = "idle" -> [S EXCEPT !.dirty = FALSE, !.pi = 0, !.pc = "slot"]
      [] S.pc = "slot" ->
           LET idx == (S.fi + S.pi) % K
               sl  == Slot(S, idx)
           IN IF sl.num = -1 \/ sl.num < S.head \/ sl.num > S.head + 1 THEN NextSlot(S)
              ELSE [S EXCEPT !.pidx = idx, !.pn = sl.size, !.pj = 1, !.pc = "snap"]
      [] S.pc = "snap" ->
           IF S.pj > S.pn THEN NextSlot(S)
           ELSE IF CurEntry(S).fin THEN [S EXCEPT !.pj = S.pj + 1]
           ELSE [S EXCEPT !.pkn = Len(CurEntry(S).peers), !.pk = 1, !.pc = "offer"]
      [] S.pc = "offer" ->
           LET s == Cur(S)
               r == RoundOf(S, s)
           IN IF r < S.head \/ r > S.head + 1 THEN AfterOffer(S, FALSE)
              ELSE IF r = S.head + 1 /\ ~CanOpen(S, s) THEN AfterOffer(S, FALSE)
              ELSE LET S1 == IF r = S.head + 1 THEN Advance(S, Closes(S, s)) ELSE S
                   IN IF KindOf(S, s) # "good" THEN AfterOffer(S1, FALSE)
                      ELSE [S1 EXCEPT !.pc = "mid"]
      [] S.pc = "mid" ->
           LET s == Cur(S)
           IN IF Finalizes(S, s)
              THEN AfterOffer([S EXCEPT !.hround = Append(@, s), !.written = Append(@, s)], TRUE)
              ELSE AfterOffer(S, FALSE)
      [] S.pc = "cache" -> [S EXCEPT !.cq = 0, !.pc = "idle"]

\* the poll goroutine up to its next observable point: a handler that reached the transaction
\* lookup ("mid") or the end of the iteration ("idle")
RECURSIVE RunPoll(_)
RunPoll(S) == LET T == PStep(S) IN IF T.pc \in {"mid", "idle"} THEN T ELSE RunPoll(T)

-----------------------------------------------------------------------------
(* Statements *)

\* where a snapshot of round r belongs while r is inside the window
SlotOf(S, r) == (r - S.head + S.fi) % K

InPool(S, s) ==
    LET sl == Slot(S, SlotOf(S, RoundOf(S, s))) IN sl.num = RoundOf(S, s) /\ s \in Ids(sl)

\* P1 retention: an admitted snapshot stays in its slot while its round is not older than the head
Retention(S, adm) == \A s \in adm : RoundOf(S, s) >= S.head => InPool(S, s)

\* P2/P3 at a handover: the snapshot's round is head or head + 1, and it was not written before
HandoverOK(S) ==
    S.pc = "offer" => /\ RoundOf(S, Cur(S)) \in {S.head, S.head + 1}
                      /\ Cur(S) \notin PRange(S.written)
                      /\ ~CurEntry(S).fin
MidOK(S) == S.pc = "mid" => RoundOf(S, Cur(S)) = S.head /\ Cur(S) \notin PRange(S.written)

\* P4 a slot holds snapshots of one round only, each once, and the slot index is determined by the round
SlotPure(S) ==
    \A i \in DOMAIN S.pool :
       LET sl == S.pool[i] IN
         /\ \A j \in 1..sl.size : RoundOf(S, sl.arr[j].id) = sl.num
         /\ Cardinality(Ids(sl)) = sl.size
         /\ i = (sl.num - S.h0) % K
         /\ \A j \in 1..sl.size : /\ Len(sl.arr[j].peers) \in 1..PeerLimit
                                  /\ \A a, b \in DOMAIN sl.arr[j].peers :
                                        sl.arr[j].peers[a] = sl.arr[j].peers[b] => a = b

\* P5 FinalIndex/FinalCount move forward one step at a time, in lockstep with the head
IndexOK(S) == S.fi = S.fc % K /\ S.head = S.h0 + S.fc
IndexStep(S, T) == T.fc \in {S.fc, S.fc + 1} /\ T.head - S.head = T.fc - S.fc

\* the slot at FinalIndex is nil, the head's round or the round K before it: appendFinalSnapshot never retries
NoRetry(S) == LET pr == Slot(S, S.fi) IN pr.num = -1 \/ pr.num = S.head \/ pr.num + K = S.head

\* an entry marked finalized was written, and the live round holds written snapshots of the head round only
FinFlagOK(S) ==
    /\ \A i \in DOMAIN S.pool : \A j \in 1..S.pool[i].size :
          S.pool[i].arr[j].fin => S.pool[i].arr[j].id \in PRange(S.written)
    /\ \A j \in DOMAIN S.hround : RoundOf(S, S.hround[j]) = S.head /\ S.hround[j] \in PRange(S.written)
    /\ \A a, b \in DOMAIN S.written : S.written[a] = S.written[b] => a = b
=============================================================================
