SPECIFICATION Spec
CONSTANTS
  K = 3
  SizeLimit = 3
  PeerLimit = 2
  RingCap = 1
  CacheCap = 0
  Universe <- UD
  H0 = 1
  Peers = {1}
  Fine = FALSE
  UseRing = FALSE
  MaxWritten = 99
  Split = FALSE
  SelfFeed = FALSE
VIEW View
INVARIANT Inv
PROPERTY ReachSizeErr
CHECK_DEADLOCK FALSE
