SPECIFICATION Spec
CONSTANT MaxDefects = 1
VIEW View
INVARIANTS Inv
CONSTRAINT EmitCase
CHECK_DEADLOCK FALSE
