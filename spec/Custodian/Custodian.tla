------------------------------ MODULE Custodian ------------------------------
(***************************************************************************)
(* Decision table of a custodian update (C34).                             *)
(* Code: common/custodian.go  EncodeCustodianNode, parseCustodianNode,     *)
(* ParseCustodianUpdateNodesExtra, Transaction.validateCustodianUpdateNodes.*)
(*                                                                         *)
(* An update is abstracted to a record c:                                  *)
(*   n        number of node entries                                       *)
(*   shape    the transaction envelope: "ok" or one structural defect      *)
(*   order    "sorted" | "swap" (two adjacent inner entries exchanged) |    *)
(*            "swapFirst" / "swapLast" (the first / last pair exchanged) | *)
(*            "minLast" (the smallest key moved to the end) | "reversed"   *)
(*   dup      "none" | "custodian" (two entries with one custodian key) |  *)
(*            "payee" (two entries with one payee key) | "cross" (a payee  *)
(*            key equal to another entry's custodian key) | "self" (an     *)
(*            entry whose payee key is its custodian key)                  *)
(*   action   "ok" | "bad"   action byte of one entry                      *)
(*   psig, csig   kind of the payee / custodian signature of one entry     *)
(*   approval kind of the approval signature by the current custodian      *)
(*   newc, chg    entries not present in the previous custodian state /    *)
(*            present with another payee                                   *)
(*   keyvar   how a new / changed entry differs from the previous state:   *)
(*            "spend" (another spend key) | "view" (the same spend key,    *)
(*            another view key: addresses are compared as a whole)         *)
(*   paid     "lt" | "eq" | "gt"  amount vs 100*newc + 1*chg               *)
(*   account  "same" | "other"   custodian account vs the previous one     *)
(*   extraPrev   nodes of the previous state that the update drops         *)
(* Signature kinds: "good", "wrongkey" (valid signature by another key),   *)
(* "wrongmsg" (the right key over another message), "tampered".            *)
(***************************************************************************)
EXTENDS Naturals, Sequences

SigKinds == { "good", "wrongkey", "wrongmsg", "tampered" }
MinNodes == 7
NewPrice == 100
UpdatePrice == 1

Required(c) == NewPrice * c.newc + UpdatePrice * c.chg

Sorted(c)      == c.order = "sorted"
UniqueKeys(c)  == c.dup = "none"
EntrySigsOK(c) == c.psig = "good" /\ c.csig = "good" /\ c.action = "ok"
ApprovalOK(c)  == c.approval = "good"
PaidOK(c)      == c.paid \in { "eq", "gt" }
SameSetOK(c)   == c.account = "same" => (c.newc = 0 /\ c.extraPrev = 0)

\* what C34 states about an accepted update
Necessary(c) == Sorted(c) /\ UniqueKeys(c) /\ EntrySigsOK(c) /\ ApprovalOK(c) /\ PaidOK(c)

\* the complete rule of validateCustodianUpdateNodes
Accept(c) == c.shape = "ok" /\ c.n >= MinNodes /\ Necessary(c) /\ SameSetOK(c)

(* ------------- byte mutations of an encoded, valid update ---------------- *)
\* field of the flipped byte; resigned: the approval signature was recomputed afterwards
HashedEntryFields == { "action", "custodianSpend", "custodianView", "payeeSpend", "payeeView", "nodeId" }
MutFields == HashedEntryFields \cup { "signerSig", "payeeSig", "custodianSig", "headSpend", "headView", "approvalSig" }
\* the approval covers every byte before it; entry signatures cover the hashed entry fields; the
\* signer signature and the head (new custodian account) are not checked by this layer
MutAccept(field, resigned) == resigned /\ field \in { "signerSig", "headSpend", "headView" }
MutNecessary(field, resigned) ==     \* an accepted mutated update still satisfies C34
    /\ field \notin HashedEntryFields \cup { "payeeSig", "custodianSig", "approvalSig" }
    /\ resigned
=============================================================================
