----------------------------- MODULE MC_Custodian -----------------------------
(***************************************************************************)
(* E3 for C34: the decision table.  Base cases = all combinations of the   *)
(* previous-state parameters (new / changed entries, amount paid, same or  *)
(* other account, dropped nodes, 7 or 8 entries); from each base case every *)
(* single defect and every pair of defects is reached.  Theorem: Accept    *)
(* implies what C34 states.  Every case is emitted for replay (E1).        *)
(***************************************************************************)
EXTENDS Custodian, TLC, Json

CONSTANT MaxDefects

VARIABLES c, d
vars == << c, d >>

Base == [ n : {7, 8}, shape : {"ok"}, order : {"sorted"}, dup : {"none"}, action : {"ok"},
          psig : {"good"}, csig : {"good"}, approval : {"good"},
          newc : {0, 1, 7}, chg : {0, 1, 2}, paid : {"lt", "eq", "gt"}, account : {"same", "other"}, extraPrev : {0, 1},
          keyvar : {"spend", "view"} ]
Feasible(k) == /\ k.newc + k.chg <= k.n
               /\ k.keyvar = "view" => k.newc + k.chg > 0
               /\ k.paid = "lt" => Required(k) > 0

Defects(k) ==
    { [k EXCEPT !.shape = s] : s \in { "twoOutputs", "wrongType", "wrongScript", "twoKeys", "wrongAsset" } } \cup
    { [k EXCEPT !.order = s] : s \in { "swap", "reversed", "swapFirst", "swapLast", "minLast" } } \cup
    { [k EXCEPT !.dup = s] : s \in { "custodian", "payee", "cross", "self" } } \cup
    { [k EXCEPT !.action = "bad"] } \cup
    { [k EXCEPT !.psig = s] : s \in SigKinds \ {"good"} } \cup
    { [k EXCEPT !.csig = s] : s \in SigKinds \ {"good"} } \cup
    { [k EXCEPT !.approval = s] : s \in SigKinds \ {"good"} } \cup
    { [k EXCEPT !.n = 6] }

Init == c \in { k \in Base : Feasible(k) } /\ d = 0
Next == d < MaxDefects /\ c' \in Defects(c) /\ c' # c /\ Feasible(c') /\ d' = d + 1
Spec == Init /\ [][Next]_vars

Inv == Accept(c) => /\ Necessary(c)
                    /\ Required(c) >= 0
                    /\ c.n >= MinNodes
\* mutation table: acceptance of a mutated update implies the C34 conditions
MutInv == \A f \in MutFields, r \in BOOLEAN : MutAccept(f, r) => MutNecessary(f, r)

View == c
EmitCase == PrintT("CASE " \o ToJson([c |-> c, d |-> d, accept |-> Accept(c)]))
WitnessAccept == ~Accept(c)
=============================================================================
