SPECIFICATION Spec
CONSTANT MaxDefects = 1
VIEW View
INVARIANT WitnessAccept
CHECK_DEADLOCK FALSE
