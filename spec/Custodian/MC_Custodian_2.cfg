SPECIFICATION Spec
CONSTANT MaxDefects = 2
VIEW View
INVARIANTS Inv MutInv
CHECK_DEADLOCK FALSE
