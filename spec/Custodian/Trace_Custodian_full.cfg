SPECIFICATION Spec
CONSTANTS
  Mode = "full"
CONSTRAINT HW
INVARIANT Inv
POSTCONDITION Accepted
CHECK_DEADLOCK FALSE
