--------------------------- MODULE Trace_Custodian ---------------------------
(***************************************************************************)
(* Trace specification for C34 (engine E2, decision-table pattern).        *)
(*  {"ev":"case","c":{..abstract case..},"pad":k,"pres":r,"res":r,         *)
(*   "in":[[custodian,payee,extra-hash]..],"out":[..]}                     *)
(*      the case concretized with real keys and signatures;                *)
(*      pres = ParseCustodianUpdateNodesExtra, res =                       *)
(*      validateCustodianUpdateNodes, in/out = entries encoded / parsed    *)
(*  {"ev":"mut","n":n,"field":f,"resigned":b,"res":r}                       *)
(*      one bit of a valid update flipped in field f (approval re-signed   *)
(*      or not)                                                            *)
(* Mode "full": outcome = Accept(c) / MutAccept.                            *)
(* Mode "monitor": C34 only - accepted => sorted, unique keys, entry       *)
(*   signatures valid, approval by the current custodian, price paid;      *)
(*   parsed entries = encoded entries.                                     *)
(***************************************************************************)
EXTENDS TraceLib, Custodian

CONSTANT Mode
Full == Mode = "full"

VARIABLE l
Init == l = 1
Next == l <= TraceLen /\ l' = l + 1
Spec == Init /\ [][Next]_l

ParseOK(c) == c.n >= MinNodes /\ Sorted(c) /\ UniqueKeys(c) /\ EntrySigsOK(c)

CaseOK(e) ==
    /\ e.res = "ok" => Necessary(e.c)
    /\ e.pres = "ok" => /\ Sorted(e.c) /\ UniqueKeys(e.c) /\ EntrySigsOK(e.c)
                        /\ e.out = e.in                       \* encode / parse round trip
    /\ Full => /\ (e.res = "ok") = Accept(e.c)
               /\ (e.pres = "ok") = ParseOK(e.c)
               /\ e.res # "panic" /\ e.pres # "panic"

MutOK(e) ==
    /\ e.res = "ok" => MutNecessary(e.field, e.resigned)
    /\ Full => ((e.res = "ok") = MutAccept(e.field, e.resigned) /\ e.res # "panic")

EventOK(e) == CASE e.ev = "case" -> CaseOK(e)
                [] e.ev = "mut"  -> MutOK(e)
                [] OTHER -> FALSE

Inv == l > 1 => EventOK(Trace[l - 1])
HW == HighWaterOf(l)
Accepted == TraceAcceptedAt
=============================================================================
