SPECIFICATION Spec
CONSTANT MaxDefects = 1
VIEW View
INVARIANTS Inv MutInv
CHECK_DEADLOCK FALSE
