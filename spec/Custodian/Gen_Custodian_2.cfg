SPECIFICATION Spec
CONSTANT MaxDefects = 2
VIEW View
INVARIANTS Inv
CONSTRAINT EmitCase
CHECK_DEADLOCK FALSE
