SPECIFICATION Spec
CONSTANTS
  Family = "S"
  Size = "quick"
  SliceK = 101
  SliceSet = {0}
INVARIANT TypeOK
INVARIANT AcceptedConserves
INVARIANT AcceptedAuthorized
CHECK_DEADLOCK FALSE
