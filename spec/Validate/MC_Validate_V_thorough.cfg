\* Exhaustive decision-table check of family V (thorough dimensions). The driver (tools/props/validate.py)
\* writes the same configuration plus "CONSTRAINT EmitCase" (Gen_Validate_V_thorough.cfg) into its scratch
\* directory, with SliceSet chosen from VERIF_SEED for family P.
SPECIFICATION Spec
CONSTANTS
  Family = "V"
  Size = "thorough"
  SliceK = 151
  SliceSet = {0}
INVARIANT TypeOK
INVARIANT AcceptedConserves
INVARIANT AcceptedAuthorized
CHECK_DEADLOCK FALSE
