--------------------------- MODULE ValidateWorld ---------------------------
(***************************************************************************)
(* The abstract ledgers the decision operators are evaluated against.      *)
(* Each is the abstraction of a real ledger that the harness               *)
(* (harness/inpkg/storage/zz_verif_validate_test.go, table vvSlotDefs)     *)
(* builds in a real BadgerStore from a generated genesis through finalized *)
(* deposits, a mint, a node removal, a pledge and its cancellation, a      *)
(* withdrawal submit and claim, an unfinalized spend, (world B) a pending  *)
(* pledge. The two tables must stay in step.                               *)
(***************************************************************************)
EXTENDS Validate, TLC

Sl(asset, typ, amt, nk, thr) ==
    [exists |-> TRUE, asset |-> asset, typ |-> typ, amt |-> amt, nk |-> nk, thr |-> thr,
     locked |-> FALSE, acc |-> "none"]
NoSlot == [exists |-> FALSE, asset |-> "-", typ |-> "-", amt |-> ZeroAmt, nk |-> 0, thr |-> 0,
           locked |-> FALSE, acc |-> "none"]

Digit(n) == CASE n = 0 -> "0" [] n = 1 -> "1" [] n = 2 -> "2" [] n = 3 -> "3" [] n = 4 -> "4"
\* signature-layout grid: s<keys><threshold><instance>, one unit each, asset OTH
GridName(nk, thr, inst) == "s" \o Digit(nk) \o Digit(thr) \o inst

BaseNames == {"x1", "x2", "x3", "xf", "xs", "xl", "xt0", "xt3", "a1", "a2", "rm", "cn", "pl", "cl", "cu",
              "b1", "b2", "o1", "o2", "o3", "oh", "oh2", "k64a", "k64b", "ow1", "ow2", "x1i255", "x1i256", "x1i512", "x1i768", "x1i1024", "missing", "badidx", "sub0"}
GridNameSet == {"s10a", "s10b", "s10c", "s11a", "s11b", "s11c", "s12a", "s12b", "s12c", "s13a", "s13b", "s13c", "s14a", "s14b", "s14c", "s20a", "s20b", "s20c", "s21a", "s21b", "s21c", "s22a", "s22b", "s22c", "s23a", "s23b", "s23c", "s24a", "s24b", "s24c", "s30a", "s30b", "s30c", "s31a", "s31b", "s31c", "s32a", "s32b", "s32c", "s33a", "s33b", "s33c", "s34a", "s34b", "s34c"}
SlotNames == BaseNames \cup GridNameSet

\* (explicit arms: TLC evaluates the table lazily, one arm per lookup)
SlotDef(n) ==
      CASE n = "x1"  -> Sl("XIN", "script", U(1), 1, 1)
        [] n = "x2"  -> Sl("XIN", "script", U(2), 2, 1)
        [] n = "x3"  -> Sl("XIN", "script", U(3), 3, 2)
        [] n = "xf"  -> Sl("XIN", "script", U(10001), 1, 1)
        [] n = "xs"  -> Sl("XIN", "script", U(20000), 1, 1)
        [] n = "xl"  -> [Sl("XIN", "script", U(2), 1, 1) EXCEPT !.locked = TRUE]
        [] n = "xt0" -> Sl("XIN", "script", U(1), 2, 0)
        [] n = "xt3" -> Sl("XIN", "script", U(1), 2, 3)
        [] n = "a1"  -> [Sl("XIN", "accept", Amt(0, 0, 0, 1, 0), 7, 5) EXCEPT !.acc = "removeEq1"]
        [] n = "a2"  -> [Sl("XIN", "accept", Amt(0, 0, 0, 1, 0), 7, 5) EXCEPT !.acc = "removeEq2"]
        [] n = "rm"  -> Sl("XIN", "remove", Amt(0, 0, 0, 1, 0), 1, 1)
        [] n = "cn"  -> Sl("XIN", "cancel", U(1), 0, 0)
        [] n = "pl"  -> Sl("XIN", "pledge", U(100), 0, 0)
        [] n = "cl"  -> Sl("XIN", "claim", U(10000), 0, 0)
        [] n = "cu"  -> Sl("XIN", "custodian", U(7), 1, 64)
        [] n = "b1"  -> Sl("BTC", "script", U(1), 1, 1)
        [] n = "b2"  -> Sl("BTC", "script", U(2), 1, 1)
        [] n = "o1"  -> Sl("OTH", "script", U(1), 1, 1)
        [] n = "o2"  -> Sl("OTH", "script", U(2), 2, 2)
        [] n = "o3"  -> Sl("OTH", "script", U(3), 3, 2)
        [] n = "oh"  -> Sl("OTH", "script", Amt(0, 1, 0, 0, 0), 1, 1)
        [] n = "oh2" -> Sl("OTH", "script", Amt(0, 1, 0, 0, 0), 1, 1)
        [] n = "ow1" -> Sl("OTH", "script", AmtW(0, 1, 0), 1, 1)
        [] n = "ow2" -> Sl("OTH", "script", AmtW(0, 1, 0), 1, 1)
        [] n = "k64a" -> Sl("OTH", "script", U(1), 64, 64)
        [] n = "k64b" -> Sl("OTH", "script", U(1), 64, 33)
        [] n = "s10a" -> Sl("OTH", "script", U(1), 1, 0)
        [] n = "s10b" -> Sl("OTH", "script", U(1), 1, 0)
        [] n = "s10c" -> Sl("OTH", "script", U(1), 1, 0)
        [] n = "s11a" -> Sl("OTH", "script", U(1), 1, 1)
        [] n = "s11b" -> Sl("OTH", "script", U(1), 1, 1)
        [] n = "s11c" -> Sl("OTH", "script", U(1), 1, 1)
        [] n = "s12a" -> Sl("OTH", "script", U(1), 1, 2)
        [] n = "s12b" -> Sl("OTH", "script", U(1), 1, 2)
        [] n = "s12c" -> Sl("OTH", "script", U(1), 1, 2)
        [] n = "s13a" -> Sl("OTH", "script", U(1), 1, 3)
        [] n = "s13b" -> Sl("OTH", "script", U(1), 1, 3)
        [] n = "s13c" -> Sl("OTH", "script", U(1), 1, 3)
        [] n = "s14a" -> Sl("OTH", "script", U(1), 1, 4)
        [] n = "s14b" -> Sl("OTH", "script", U(1), 1, 4)
        [] n = "s14c" -> Sl("OTH", "script", U(1), 1, 4)
        [] n = "s20a" -> Sl("OTH", "script", U(1), 2, 0)
        [] n = "s20b" -> Sl("OTH", "script", U(1), 2, 0)
        [] n = "s20c" -> Sl("OTH", "script", U(1), 2, 0)
        [] n = "s21a" -> Sl("OTH", "script", U(1), 2, 1)
        [] n = "s21b" -> Sl("OTH", "script", U(1), 2, 1)
        [] n = "s21c" -> Sl("OTH", "script", U(1), 2, 1)
        [] n = "s22a" -> Sl("OTH", "script", U(1), 2, 2)
        [] n = "s22b" -> Sl("OTH", "script", U(1), 2, 2)
        [] n = "s22c" -> Sl("OTH", "script", U(1), 2, 2)
        [] n = "s23a" -> Sl("OTH", "script", U(1), 2, 3)
        [] n = "s23b" -> Sl("OTH", "script", U(1), 2, 3)
        [] n = "s23c" -> Sl("OTH", "script", U(1), 2, 3)
        [] n = "s24a" -> Sl("OTH", "script", U(1), 2, 4)
        [] n = "s24b" -> Sl("OTH", "script", U(1), 2, 4)
        [] n = "s24c" -> Sl("OTH", "script", U(1), 2, 4)
        [] n = "s30a" -> Sl("OTH", "script", U(1), 3, 0)
        [] n = "s30b" -> Sl("OTH", "script", U(1), 3, 0)
        [] n = "s30c" -> Sl("OTH", "script", U(1), 3, 0)
        [] n = "s31a" -> Sl("OTH", "script", U(1), 3, 1)
        [] n = "s31b" -> Sl("OTH", "script", U(1), 3, 1)
        [] n = "s31c" -> Sl("OTH", "script", U(1), 3, 1)
        [] n = "s32a" -> Sl("OTH", "script", U(1), 3, 2)
        [] n = "s32b" -> Sl("OTH", "script", U(1), 3, 2)
        [] n = "s32c" -> Sl("OTH", "script", U(1), 3, 2)
        [] n = "s33a" -> Sl("OTH", "script", U(1), 3, 3)
        [] n = "s33b" -> Sl("OTH", "script", U(1), 3, 3)
        [] n = "s33c" -> Sl("OTH", "script", U(1), 3, 3)
        [] n = "s34a" -> Sl("OTH", "script", U(1), 3, 4)
        [] n = "s34b" -> Sl("OTH", "script", U(1), 3, 4)
        [] n = "s34c" -> Sl("OTH", "script", U(1), 3, 4)
        [] OTHER     -> NoSlot      \* "missing", "badidx", "sub0", "x1i<k>" (index k of the transaction
                                    \* whose output 0 is x1): no such output

SlotsOf(w) ==
    [n \in SlotNames |-> IF n = "pl" /\ w = "A" THEN NoSlot      \* no pledge pending in world A
                         ELSE SlotDef(n)]

\* BTC balance: outputs b1 + b2
WorldA == [slot |-> SlotsOf("A"), pending |-> FALSE, bal |-> U(3)]
WorldB == [slot |-> SlotsOf("B"), pending |-> TRUE, bal |-> U(3)]
World(w) == IF w = "B" THEN WorldB ELSE WorldA
=============================================================================
