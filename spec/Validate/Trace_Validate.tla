--------------------------- MODULE Trace_Validate ---------------------------
(***************************************************************************)
(* Trace specification (engine E2) for spec/Validate.                      *)
(*                                                                         *)
(* Event lines (NDJSON), recorded by harness/inpkg/storage/                *)
(* zz_verif_validate_test.go from the real code:                           *)
(*  {"ev":"Val","c":case,"via":"codec"|"direct","res":r[,"obs":O]}         *)
(*      the abstract transaction c (as TLC generated it), concretized,     *)
(*      encoded and decoded by the real codec, validated by the real       *)
(*      Validate against the real ledger of world c.w; r = ok|err|panic;   *)
(*      O = what the real store / the decoded object say about inputs and  *)
(*      outputs (existence, asset class, amounts as limbs).                *)
(*  {"ev":"Tamper","kind":k,"j":i,"res":r}   the preceding Val transaction *)
(*      with payload bytes (j = 0) or the signature material of input j    *)
(*      changed, validated again.                                          *)
(*  {"ev":"Batch","kinds":K,"batch":b,"singles":S,"res":r}                 *)
(*      crypto.BatchVerify against per-signature Verify on one vector.     *)
(*  {"ev":"Raw","res":r}  a seeded byte-level mutant that still decodes.   *)
(*  {"ev":"Undecodable",...}  bytes the codec refused: nothing to validate.*)
(*                                                                         *)
(* Mode "full": the real verdict is the specification's verdict and the    *)
(*   observed ledger facts are the ledger table's.                         *)
(* Mode "C01" / "C02" / "C05": only the implications the property makes.   *)
(***************************************************************************)
EXTENDS TraceLib, ValidateWorld, ValidateBigNat

CONSTANT Mode

VARIABLES l, last
vars == <<l, last>>

NoLast == [has |-> FALSE]

Init == l = 1 /\ last = NoLast

Ev == Trace[l]

AssetClass(a) == CASE a = "XIN" -> 1 [] a = "BTC" -> 2 [] a = "OTH" -> 3 [] a = "NEW" -> 4 [] a = "ZER" -> 5

--------------------------------------------------------------------------
(* C01 over observed quantities *)
ObsIn(o) == BNSum([i \in 1..Len(o.ins) |-> o.ins[i].amt])
ObsOut(o) == BNSum([i \in 1..Len(o.outs) |-> o.outs[i].amt])

ConservesObs(o) ==
    /\ \A i \in 1..Len(o.ins) : o.ins[i].ord => (o.ins[i].exists /\ o.ins[i].asset = o.asset)
    /\ \A i \in 1..Len(o.ins) : ~o.ins[i].gen
    /\ BNCmp(ObsIn(o), ObsOut(o)) = 0
    /\ ~BNIsZero(ObsIn(o))
    /\ \A i \in 1..Len(o.outs) : ~BNIsZero(o.outs[i].amt)

\* the real ledger is the table's ledger, the concretization preserves the amount relations
ObsBinding(c, L, o) ==
    /\ o.asset = AssetClass(c.asset)
    /\ Len(o.ins) = Len(c.ins) /\ Len(o.outs) = Len(c.outs)
    /\ \A i \in 1..Len(c.ins) :
         LET s == L.slot[c.ins[i].slot] IN
         /\ o.ins[i].ord = ~InSpecial(c.ins[i])
         /\ o.ins[i].ord =>
              /\ o.ins[i].exists = s.exists
              /\ s.exists => /\ o.ins[i].asset = AssetClass(s.asset)
                             /\ o.ins[i].typ = s.typ
                             /\ o.ins[i].nk = s.nk
                             /\ o.ins[i].locked = s.locked
    /\ (\A i \in OrdinaryIdx(c) : L.slot[c.ins[i].slot].exists) =>
         LET sin  == AmtSum([i \in 1..Len(c.ins) |-> InAmount(c, L, i)])
             sout == AmtSum([i \in 1..Len(c.outs) |-> c.outs[i].amt]) IN
         AmtCmp(sin, sout) = BNCmp(ObsIn(o), ObsOut(o))

--------------------------------------------------------------------------
ValOK(e) ==
    LET c == e.c  L == World(c.w) IN
    CASE Mode = "full" -> /\ e.res = Decide(c, L)
                          /\ Has(e, "obs") => (ObsBinding(c, L, e.obs) /\ (e.res = "ok" => ConservesObs(e.obs)))
      [] Mode = "C01"  -> (e.res = "ok" /\ Has(e, "obs")) => ConservesObs(e.obs)
      [] Mode = "C02"  -> e.res = "ok" => AuthOK(c, L)
      [] Mode = "C05"  -> e.res # "panic"

Val ==
    /\ l <= TraceLen /\ Ev.ev = "Val"
    /\ ValOK(Ev)
    /\ last' = [has |-> TRUE, c |-> Ev.c, res |-> Ev.res]
    /\ l' = l + 1

\* a tampered authorization matters where a threshold is positive
ThrPositive(c, L, j) ==
    IF j = 0 THEN \E i \in SignedIdx(c, L) : L.slot[c.ins[i].slot].thr >= 1
    ELSE j \in SignedIdx(c, L) /\ L.slot[c.ins[j].slot].thr >= 1

TamperOK(e) ==
    LET c == last.c  L == World(c.w) IN
    CASE Mode = "full" -> last.res = "ok" => e.res = "err"
      [] Mode = "C02"  -> (last.res = "ok" /\ ThrPositive(c, L, e.j)) => e.res # "ok"
      [] Mode = "C05"  -> e.res # "panic"
      [] OTHER         -> TRUE

Tamper ==
    /\ l <= TraceLen /\ Ev.ev = "Tamper"
    /\ last.has
    /\ TamperOK(Ev)
    /\ UNCHANGED last
    /\ l' = l + 1

AllTrue(s) == \A i \in 1..Len(s) : s[i]

BatchOK(e) ==
    CASE Mode = "full" -> /\ e.res = "ok"
                          /\ e.batch = AllTrue(e.singles)
                          /\ \A i \in 1..Len(e.kinds) : e.singles[i] = (e.kinds[i] = "G")
      [] Mode = "C02"  -> e.res = "ok" /\ e.batch = AllTrue(e.singles)
      [] Mode = "C05"  -> e.res # "panic"
      [] OTHER         -> TRUE

Batch ==
    /\ l <= TraceLen /\ Ev.ev = "Batch"
    /\ BatchOK(Ev)
    /\ UNCHANGED last
    /\ l' = l + 1

Raw ==
    /\ l <= TraceLen /\ Ev.ev = "Raw"
    /\ (Mode \in {"full", "C05"} => Ev.res # "panic")
    /\ UNCHANGED last
    /\ l' = l + 1

Undecodable ==
    /\ l <= TraceLen /\ Ev.ev = "Undecodable"
    /\ UNCHANGED last
    /\ l' = l + 1

Next == Val \/ Tamper \/ Batch \/ Raw \/ Undecodable

Spec == Init /\ [][Next]_vars

HW == HighWaterOf(l)
Accepted == TraceAcceptedAt
=============================================================================
