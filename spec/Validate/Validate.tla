------------------------------ MODULE Validate ------------------------------
(***************************************************************************)
(* Transaction validation of Mixin Kernel as pure decision operators       *)
(* (common/validation.go VersionedTransaction.Validate and the type rules  *)
(* in deposit.go mint.go withdrawal.go node.go custodian.go), transcribed  *)
(* from DESIGN.md Appendix B, over an abstract transaction record and an   *)
(* abstract ledger.                                                        *)
(*                                                                         *)
(* Abstract transaction  c :                                               *)
(*   asset  "XIN" | "BTC" | "OTH" | "NEW"  (NEW: never seen by the ledger) *)
(*          | "ZER" (registered, recorded total exactly zero: deposited    *)
(*          once and withdrawn in full)                                    *)
(*   fork   BOOLEAN           ts  "gen" | "late"   (snapshot time class)   *)
(*   ins    sequence of [slot, gen, dep, mint, amt]                        *)
(*   outs   sequence of [t, amt, nk, kv, scr, mask, wd]                    *)
(*   refs   sequence of "fin" | "submit" | "pend" | "miss"                 *)
(*   extra  class name (ExtraLen gives its length)                         *)
(*   sig    [k |-> "maps", maps |-> sequence of sequences of [i, s]]       *)
(*          [k |-> "agg", signers, built, sk, msg]                         *)
(* Signatures are symbolic: an entry [i, s] is a signature at key index i  *)
(* of kind s: "G" made by the key the spent output lists at that index over*)
(* the payload hash, "C" by the custodian, "N" by the pledging node's      *)
(* signer key, "WK" by an unrelated key, "WM" by the right key over another*)
(* message, "TR"/"TS" a good signature with a damaged R / S half, "GB"     *)
(* random bytes, "TO" a signature whose R carries a small-order component, *)
(* "K1"/"K2" the two halves of a compensated pair (two good signatures     *)
(* whose S halves are shifted by +d and -d: each is invalid, their sum is  *)
(* unchanged).                                                             *)
(*                                                                         *)
(* Amounts are integer combinations  g*G + h*H + c*CAP + p*P + n  of       *)
(* symbolic units with G >> H >> V >> W >> CAP >> P >> 1 (V = 2^127 and      *)
(* W = 2^63 units: the machine-word boundaries; giant: transaction only,   *)
(* up to the encoding limit; huge: fits the default capacity; CAP: the     *)
(* capacity of the Bitcoin asset; P: node pledge amount; 1 = 1e-8), so sum *)
(* and comparison are exact and lexicographic (coefficients stay small).   *)
(*                                                                         *)
(* Abstract ledger  L :                                                    *)
(*   slot(name) = [exists, asset, typ, amt, nk, thr, locked, acc]          *)
(*   pending      a node is pledging (its pledge output is slot "pl")      *)
(*   bal          balance class of BTC                                     *)
(* The specification has two outcomes only, "ok" and "err": validation is  *)
(* total (C05).                                                            *)
(***************************************************************************)
EXTENDS Integers, Sequences, FiniteSets

--------------------------------------------------------------------------
(* amounts *)
\* v, w: multiples of 2^127 and 2^63 units (the machine-word boundaries: 2*W = 2^64, 2*V = 2^128)
Amt(g, h, c, p, n) == [g |-> g, h |-> h, v |-> 0, w |-> 0, c |-> c, p |-> p, n |-> n]
AmtW(v, w, n) == [g |-> 0, h |-> 0, v |-> v, w |-> w, c |-> 0, p |-> 0, n |-> n]
ZeroAmt == Amt(0, 0, 0, 0, 0)
U(n) == Amt(0, 0, 0, 0, n)
AmtAdd(a, b) == [g |-> a.g + b.g, h |-> a.h + b.h, v |-> a.v + b.v, w |-> a.w + b.w,
                 c |-> a.c + b.c, p |-> a.p + b.p, n |-> a.n + b.n]
AmtCmp(a, b) ==
    IF a.g # b.g THEN (IF a.g < b.g THEN -1 ELSE 1)
    ELSE IF a.h # b.h THEN (IF a.h < b.h THEN -1 ELSE 1)
    ELSE IF a.v # b.v THEN (IF a.v < b.v THEN -1 ELSE 1)
    ELSE IF a.w # b.w THEN (IF a.w < b.w THEN -1 ELSE 1)
    ELSE IF a.c # b.c THEN (IF a.c < b.c THEN -1 ELSE 1)
    ELSE IF a.p # b.p THEN (IF a.p < b.p THEN -1 ELSE 1)
    ELSE IF a.n # b.n THEN (IF a.n < b.n THEN -1 ELSE 1)
    ELSE 0
AmtSign(a) == AmtCmp(a, ZeroAmt)

RECURSIVE AmtSum(_)
AmtSum(s) == IF Len(s) = 0 THEN ZeroAmt ELSE AmtAdd(Head(s), AmtSum(Tail(s)))

SeqSet(s) == {s[i] : i \in 1..Len(s)}

--------------------------------------------------------------------------
(* type inference: common/transaction.go TransactionType *)
SpecialOutTypes == {"submit", "claim", "pledge", "cancel", "accept", "remove", "custodian", "slash"}

InSpecial(in) == in.mint # "none" \/ in.dep # "none" \/ in.gen

FirstSpecialIn(c) ==
    LET S == {i \in 1..Len(c.ins) : InSpecial(c.ins[i])} IN
    IF S = {} THEN 0 ELSE CHOOSE i \in S : \A j \in S : i <= j

FirstSpecialOut(c) ==
    LET S == {i \in 1..Len(c.outs) : c.outs[i].t \in SpecialOutTypes} IN
    IF S = {} THEN 0 ELSE CHOOSE i \in S : \A j \in S : i <= j

TxType(c) ==
    LET fi == FirstSpecialIn(c)  fo == FirstSpecialOut(c) IN
    IF fi # 0
    THEN (IF c.ins[fi].mint # "none" THEN "mint"
          ELSE IF c.ins[fi].dep # "none" THEN "deposit" ELSE "unknown")
    ELSE IF fo # 0 THEN c.outs[fo].t
    ELSE IF \A i \in 1..Len(c.outs) : c.outs[i].t = "script" THEN "script"
    ELSE "unknown"

--------------------------------------------------------------------------
(* extra classes and the extra limit: validation.go GetExtraLimit *)
ExtraLen(e) ==
    CASE e = "e0" -> 0 [] e = "e1" -> 1 [] e = "e32" -> 32 [] e = "e63" -> 63
      [] e \in {"e64", "pledgeOK", "pledgeBadKey", "pledgeSigner", "pledgePayee",
                "acceptEq", "removeEq1", "removeEq2"} -> 64
      [] e \in {"e96", "claimOK", "claimBad", "cancelOK", "cancelFF", "cancelZero"} -> 96
      [] e = "e256" -> 256 [] e = "e257" -> 257 [] e = "e1024" -> 1024 [] e = "e1025" -> 1025
      [] e = "e2048" -> 2048 [] e = "e2049" -> 2049
      [] e \in {"custOK", "custBadSig", "custUnsorted", "custOther"} -> 2599
      [] e = "custShort" -> 2598 [] e = "cust6" -> 2246

ScriptFormatOK(s) == s \in {"t0", "t1", "t2", "t3", "t64"}
\* the storage output: exactly one key and script fffe40; the largest amount, first on ties
StorageIdx(c) ==
    LET S == {i \in 1..Len(c.outs) : c.outs[i].nk = 1 /\ c.outs[i].scr = "t64"} IN
    IF S = {} THEN 0
    ELSE CHOOSE i \in S : \A j \in S :
            \/ AmtCmp(c.outs[i].amt, c.outs[j].amt) > 0
            \/ (AmtCmp(c.outs[i].amt, c.outs[j].amt) = 0 /\ i <= j)

StoragePriceStep == 10000    \* 0.0001
ExtraCapacity == 4194304

\* Quotient amount / 0.0001 times 1024, capped; an amount whose quotient does not fit 64 bits
\* is far above the cap (the specification has no other outcome for it, see C05).
StepLimit(a) ==
    IF a.g > 0 \/ a.h > 0 \/ a.v > 0 \/ a.w > 0 \/ a.c > 0 \/ a.p > 0 THEN ExtraCapacity
    ELSE LET lim == (a.n \div StoragePriceStep) * 1024 IN
         IF lim > ExtraCapacity THEN ExtraCapacity ELSE lim

ExtraLimit(c) ==
    IF c.asset # "XIN" THEN 256
    ELSE LET si == StorageIdx(c) IN
         IF si = 0 THEN 256
         ELSE IF c.outs[si].t = "custodian" THEN ExtraCapacity
         ELSE IF c.outs[si].t # "script" THEN 256
         ELSE IF AmtCmp(c.outs[si].amt, U(StoragePriceStep)) < 0 THEN 256
         ELSE StepLimit(c.outs[si].amt)

--------------------------------------------------------------------------
(* shape rules that precede any ledger access *)
NMaps(c) == IF c.sig.k = "maps" THEN Len(c.sig.maps) ELSE 0

ShapeOK(c, ty) ==
    /\ Len(c.ins) >= 1 /\ Len(c.outs) >= 1
    /\ ExtraLen(c.extra) <= ExtraLimit(c)
    /\ (c.sig.k = "maps" => (NMaps(c) = Len(c.ins) \/ ty = "remove"))

RefsOK(c) ==
    /\ Len(c.refs) <= 16
    /\ \A i \in 1..Len(c.refs) : c.refs[i] \in {"fin", "submit"}

--------------------------------------------------------------------------
(* inputs: validation.go validateInputs / validateUTXO *)
StrictInc(s) == \A i \in 1..Len(s) : s[i] >= 0 /\ s[i] <= 65535 /\ (i > 1 => s[i - 1] < s[i])

EntryGood(e, s) == e.s = "G" /\ e.i < s.nk /\ s.typ \in {"script", "remove"}

\* a well-built aggregate signature: made over the payload hash by exactly the listed signers,
\* all of them keys of ordinary inputs
AggValid(c, total) ==
    /\ c.sig.sk = "G" /\ c.sig.msg = "ok"
    /\ c.sig.built = c.sig.signers
    /\ Len(c.sig.signers) > 0
    /\ StrictInc(c.sig.signers)
    /\ \A i \in 1..Len(c.sig.signers) : c.sig.signers[i] < total

AggCount(c, off, nk) ==
    Cardinality({i \in 1..Len(c.sig.signers) : c.sig.signers[i] >= off /\ c.sig.signers[i] < off + nk})

\* acc: st "run" | "err" | "special", amt, filt (slots seen), cnt (collected key/signature
\* pairs), off (keys seen), good (all collected map signatures verify)
InitAcc == [st |-> "run", amt |-> ZeroAmt, filt |-> <<>>, cnt |-> 0, off |-> 0, good |-> TRUE]

UtxoStep(c, L, ty, i, acc, s) ==
    IF s.typ \in {"script", "remove"}
    THEN IF c.sig.k = "agg"
         THEN IF ~StrictInc(c.sig.signers) THEN [acc EXCEPT !.st = "err"]
              ELSE LET n == AggCount(c, acc.off, s.nk) IN
                   IF n < s.thr THEN [acc EXCEPT !.st = "err"]
                   ELSE [acc EXCEPT !.cnt = acc.cnt + n]
         ELSE IF i > Len(c.sig.maps) THEN [acc EXCEPT !.st = "err"]     \* no map for this input
              ELSE LET m == c.sig.maps[i] IN
                   IF \E k \in 1..Len(m) : m[k].i >= s.nk THEN [acc EXCEPT !.st = "err"]
                   ELSE IF Len(m) < s.thr THEN [acc EXCEPT !.st = "err"]
                   ELSE [acc EXCEPT !.cnt = acc.cnt + Len(m),
                                    !.good = acc.good /\ \A k \in 1..Len(m) : EntryGood(m[k], s)]
    ELSE IF s.typ = "pledge" THEN (IF ty \in {"accept", "cancel"} THEN acc ELSE [acc EXCEPT !.st = "err"])
    ELSE IF s.typ = "accept" THEN (IF ty = "remove" THEN acc ELSE [acc EXCEPT !.st = "err"])
    ELSE [acc EXCEPT !.st = "err"]

RECURSIVE InLoop(_, _, _, _, _)
InLoop(c, L, ty, i, acc) ==
    IF i > Len(c.ins) \/ acc.st # "run" THEN acc
    ELSE LET in == c.ins[i] IN
         IF in.gen THEN [acc EXCEPT !.st = "err"]
         ELSE IF in.mint # "none" \/ in.dep # "none" THEN [acc EXCEPT !.st = "special", !.amt = in.amt]
         ELSE LET s == L.slot[in.slot] IN
              IF in.slot \in SeqSet(acc.filt) THEN [acc EXCEPT !.st = "err"]
              ELSE IF ~s.exists THEN [acc EXCEPT !.st = "err"]
              ELSE IF s.asset # c.asset THEN [acc EXCEPT !.st = "err"]
              ELSE IF s.locked /\ ~c.fork THEN [acc EXCEPT !.st = "err"]
              ELSE LET a2 == UtxoStep(c, L, ty, i, acc, s) IN
                   IF a2.st # "run" THEN a2
                   ELSE InLoop(c, L, ty, i + 1,
                               [a2 EXCEPT !.filt = Append(acc.filt, in.slot),
                                          !.amt = AmtAdd(acc.amt, s.amt),
                                          !.off = acc.off + s.nk])

InputsResult(c, L, ty) ==
    LET acc == InLoop(c, L, ty, 1, InitAcc) IN
    IF acc.st = "err" THEN [ok |-> FALSE, amt |-> ZeroAmt, filt |-> <<>>]
    ELSE IF acc.st = "special" THEN [ok |-> TRUE, amt |-> acc.amt, filt |-> acc.filt]
    ELSE IF acc.cnt = 0 /\ ty \in {"accept", "remove"} THEN [ok |-> TRUE, amt |-> acc.amt, filt |-> acc.filt]
    ELSE IF acc.cnt < Len(c.ins) THEN [ok |-> FALSE, amt |-> ZeroAmt, filt |-> <<>>]
    ELSE IF c.sig.k = "agg"
         THEN [ok |-> AggValid(c, acc.off), amt |-> acc.amt, filt |-> acc.filt]
         ELSE [ok |-> acc.good, amt |-> acc.amt, filt |-> acc.filt]

--------------------------------------------------------------------------
(* outputs: validation.go validateOutputs *)
KernelOutTypes == {"submit", "claim", "pledge", "cancel", "accept"}

OutputOK(o) ==
    /\ AmtSign(o.amt) > 0
    /\ (o.nk > 0 => o.kv \in {"ok", "dup", "used"})          \* "bad": not a valid point
    /\ IF o.t \in KernelOutTypes
       THEN o.nk = 0 /\ o.scr = "none" /\ o.mask = "zero"
       ELSE ScriptFormatOK(o.scr) /\ o.mask = "ok" /\ ~o.wd

\* all keys of kv = "dup" outputs are one and the same key
DupKeys(c) ==
    LET S == {i \in 1..Len(c.outs) : c.outs[i].kv = "dup"} IN
    \/ \E i \in S : c.outs[i].nk >= 2
    \/ Cardinality({i \in S : c.outs[i].nk >= 1}) >= 2

OutputsOK(c, inAmt) ==
    /\ \A i \in 1..Len(c.outs) : OutputOK(c.outs[i])
    /\ ~DupKeys(c)
    /\ AmtCmp(inAmt, AmtSum([i \in 1..Len(c.outs) |-> c.outs[i].amt])) = 0
    /\ \A i \in 1..Len(c.outs) : ~(c.outs[i].nk > 0 /\ c.outs[i].kv = "used")   \* one-time key taken

--------------------------------------------------------------------------
(* type rules *)
FiltTypes(L, filt) == {L.slot[filt[i]].typ : i \in 1..Len(filt)}
RestScript(c) == \A i \in 2..Len(c.outs) : c.outs[i].t = "script"
PendingVisible(c, L) == L.pending /\ c.ts = "late"

\* the one signature of deposit / accept / cancel transactions: one map, one entry, index 0
OneSig(c) == c.sig.k = "maps" /\ Len(c.sig.maps) = 1 /\ Len(c.sig.maps[1]) = 1 /\ c.sig.maps[1][1].i = 0

MintRule(c) ==
    /\ Len(c.ins) = 1
    /\ \A i \in 1..Len(c.outs) : c.outs[i].t = "script"
    /\ c.asset = "XIN"
    /\ c.ins[1].mint = "next"       \* "same"/"back": batch not after the last finalized one; "badgroup"

\* total + amount >= capacity of the asset
OverCapacity(c, L, a) ==
    CASE c.asset = "BTC" -> a.g > 0 \/ a.h > 0 \/ a.v > 0 \/ a.w > 0 \/ a.p > 0      \* (P is above the Bitcoin capacity)
                            \/ AmtCmp(AmtAdd(a, L.bal), Amt(0, 0, 1, 0, 0)) >= 0
      [] c.asset = "XIN" -> a.g > 0 \/ a.h > 0 \/ a.v > 0 \/ a.w > 0     \* (a few CAP or P units fit the XIN capacity)
      [] OTHER -> a.g > 0

DepositRule(c, L) ==
    /\ Len(c.ins) = 1 /\ Len(c.outs) = 1
    /\ c.outs[1].t = "script"
    /\ c.sig.k = "maps" /\ Len(c.sig.maps) = 1 /\ Len(c.sig.maps[1]) = 1
    /\ c.ins[1].dep \in {"ok", "held", "otherinfo"}       \* else malformed asset / transaction id
    /\ (c.asset # "NEW" => ~OverCapacity(c, L, c.ins[1].amt) /\ c.ins[1].dep # "otherinfo")
    /\ c.sig.maps[1][1].i = 0 /\ c.sig.maps[1][1].s = "C"
    /\ c.ins[1].dep # "held"

SubmitRule(c, L, filt) ==
    /\ FiltTypes(L, filt) \subseteq {"script"}
    /\ RestScript(c)
    /\ c.outs[1].t = "submit" /\ c.outs[1].wd

ClaimFee == 10000
ClaimRule(c, L, filt) ==
    /\ FiltTypes(L, filt) \subseteq {"script"}
    /\ c.asset = "XIN"
    /\ RestScript(c)
    /\ Len(c.refs) = 1
    /\ c.outs[1].t = "claim"
    /\ AmtCmp(c.outs[1].amt, U(ClaimFee)) >= 0
    /\ c.refs[1] = "submit"
    /\ c.extra = "claimOK"

PledgeRule(c, L, filt) ==
    /\ c.asset = "XIN"
    /\ Len(c.outs) = 1
    /\ Len(c.ins) = 1 /\ Len(filt) = 1
    /\ L.slot[filt[1]].typ \in {"script", "remove"}
    /\ c.extra = "pledgeOK"          \* 64 bytes, valid fresh signer key
    /\ ~PendingVisible(c, L)

AcceptRule(c, L) ==
    /\ c.asset = "XIN"
    /\ Len(c.outs) = 1 /\ Len(c.ins) = 1
    /\ OneSig(c)
    /\ PendingVisible(c, L)
    /\ c.ins[1].slot = "pl"
    /\ c.extra = "acceptEq"
    /\ c.sig.maps[1][1].s = "N"

RemoveRule(c, L) ==
    /\ c.asset = "XIN"
    /\ Len(c.outs) = 1 /\ Len(c.ins) = 1
    /\ L.slot[c.ins[1].slot].acc # "none"              \* sole output of a node-accept transaction
    /\ c.extra = L.slot[c.ins[1].slot].acc

CustodianRule(c, L) ==
    /\ c.asset = "XIN"
    /\ Len(c.outs) = 1
    /\ c.outs[1].t = "custodian"
    /\ c.outs[1].nk = 1 /\ c.outs[1].scr = "t64"
    /\ c.extra = "custOK"

TypeRule(c, L, ty, filt) ==
    CASE ty = "script"    -> FiltTypes(L, filt) \subseteq {"script", "remove"}
      [] ty = "mint"      -> MintRule(c)
      [] ty = "deposit"   -> DepositRule(c, L)
      [] ty = "submit"    -> SubmitRule(c, L, filt)
      [] ty = "claim"     -> ClaimRule(c, L, filt)
      [] ty = "pledge"    -> PledgeRule(c, L, filt)
      [] ty = "cancel"    -> FALSE     \* unreachable through Validate: see CancelUnreachable
      [] ty = "accept"    -> AcceptRule(c, L)
      [] ty = "remove"    -> RemoveRule(c, L)
      [] ty = "custodian" -> CustodianRule(c, L)
      [] ty = "slash"     -> FALSE
      [] OTHER            -> FALSE

--------------------------------------------------------------------------
(* the decision *)
Decide(c, L) ==
    LET ty == TxType(c) IN
    IF ty = "unknown" THEN "err"
    ELSE IF ~ShapeOK(c, ty) THEN "err"
    ELSE IF ~RefsOK(c) THEN "err"
    ELSE LET r == InputsResult(c, L, ty) IN
         IF ~r.ok THEN "err"
         ELSE IF AmtSign(r.amt) <= 0 THEN "err"
         ELSE IF ~OutputsOK(c, r.amt) THEN "err"
         ELSE IF TypeRule(c, L, ty, r.filt) THEN "ok" ELSE "err"

--------------------------------------------------------------------------
(* the properties, over the abstract case *)
OrdinaryIdx(c) == {i \in 1..Len(c.ins) : ~InSpecial(c.ins[i])}

\* C01: every input counts, ordinary or special
InAmount(c, L, i) == IF InSpecial(c.ins[i]) THEN c.ins[i].amt ELSE L.slot[c.ins[i].slot].amt
Conserves(c, L) ==
    LET sin  == AmtSum([i \in 1..Len(c.ins) |-> InAmount(c, L, i)])
        sout == AmtSum([i \in 1..Len(c.outs) |-> c.outs[i].amt]) IN
    /\ \A i \in OrdinaryIdx(c) : L.slot[c.ins[i].slot].exists /\ L.slot[c.ins[i].slot].asset = c.asset
    /\ AmtCmp(sin, sout) = 0
    /\ AmtSign(sin) > 0
    /\ \A i \in 1..Len(c.outs) : AmtSign(c.outs[i].amt) > 0
    /\ \A i \in 1..Len(c.ins) : ~c.ins[i].gen

\* C02: per ordinary input that is spent by signatures, at least threshold distinct in-range
\* good signatures; the aggregate variant counts the signers falling into the input's key range
\* and needs the aggregate itself to be well built.
Offset(c, L, i) ==
    LET prev == {j \in OrdinaryIdx(c) : j < i} IN
    AmtSum([k \in 1..Len(c.ins) |-> IF k \in prev THEN U(L.slot[c.ins[k].slot].nk) ELSE ZeroAmt]).n
TotalKeys(c, L) == Offset(c, L, Len(c.ins) + 1)

GoodCount(c, L, i) ==
    LET s == L.slot[c.ins[i].slot] IN
    IF c.sig.k = "agg"
    THEN IF AggValid(c, TotalKeys(c, L)) THEN AggCount(c, Offset(c, L, i), s.nk) ELSE 0
    ELSE IF i > Len(c.sig.maps) THEN 0
         ELSE Cardinality({m \in SeqSet(c.sig.maps[i]) : EntryGood(m, s)})

SignedIdx(c, L) == {i \in OrdinaryIdx(c) : L.slot[c.ins[i].slot].typ \in {"script", "remove"}}

AuthOK(c, L) ==
    \A i \in SignedIdx(c, L) : GoodCount(c, L, i) >= L.slot[c.ins[i].slot].thr

Outcomes == {"ok", "err"}
=============================================================================
