--------------------------- MODULE ValidateBigNat ---------------------------
(***************************************************************************)
(* Natural numbers as little-endian sequences of base-10^4 limbs without   *)
(* leading zero limbs (zero = <<>>): the form in which the harness logs    *)
(* real amounts (TLC integers are 32 bit).                                 *)
(***************************************************************************)
EXTENDS Integers, Sequences

BNBase == 10000

BNLimb(a, i) == IF i <= Len(a) THEN a[i] ELSE 0

RECURSIVE BNAddFrom(_, _, _, _)
BNAddFrom(a, b, i, carry) ==
    IF i > Len(a) /\ i > Len(b)
    THEN (IF carry = 0 THEN <<>> ELSE <<carry>>)
    ELSE LET s == BNLimb(a, i) + BNLimb(b, i) + carry IN
         <<s % BNBase>> \o BNAddFrom(a, b, i + 1, s \div BNBase)

BNAdd(a, b) == BNAddFrom(a, b, 1, 0)

BNCmp(a, b) ==
    IF Len(a) # Len(b) THEN (IF Len(a) < Len(b) THEN -1 ELSE 1)
    ELSE LET D == {i \in 1..Len(a) : a[i] # b[i]} IN
         IF D = {} THEN 0
         ELSE LET m == CHOOSE i \in D : \A j \in D : j <= i IN
              IF a[m] < b[m] THEN -1 ELSE 1

RECURSIVE BNSum(_)
BNSum(s) == IF Len(s) = 0 THEN <<>> ELSE BNAdd(Head(s), BNSum(Tail(s)))

BNIsZero(a) == Len(a) = 0
=============================================================================
