---------------------------- MODULE MC_Validate ----------------------------
(***************************************************************************)
(* Decision-table enumeration (engine E3) of spec/Validate and the case    *)
(* emitter that feeds the harness (engine E1).                             *)
(*                                                                         *)
(* One state = one abstract transaction (with its world).  Families:       *)
(*   "S"  signature layouts (C02)                                          *)
(*   "V"  value / asset / type combinations (C01)                          *)
(*   "P"  the widened product of shapes for totality (C05)                 *)
(* Size = "quick" | "thorough" selects the enumerated dimensions.          *)
(***************************************************************************)
EXTENDS ValidateWorld, TLC, Json

CONSTANTS Family, Size

VARIABLE c
vars == <<c>>

--------------------------------------------------------------------------
(* builders with defaults *)
\* amt: the amount of the record the type classification selects (mint before deposit);
\* oamt: the amount of the deposit record when the same input also carries a mint record
In(slot) == [slot |-> slot, gen |-> FALSE, dep |-> "none", mint |-> "none", amt |-> ZeroAmt, oamt |-> ZeroAmt]
DepIn(v, a) == [slot |-> "missing", gen |-> FALSE, dep |-> v, mint |-> "none", amt |-> a, oamt |-> ZeroAmt]
MintIn(v, a) == [slot |-> "missing", gen |-> FALSE, dep |-> "none", mint |-> v, amt |-> a, oamt |-> ZeroAmt]
GenIn == [slot |-> "missing", gen |-> TRUE, dep |-> "none", mint |-> "none", amt |-> ZeroAmt, oamt |-> ZeroAmt]
Hybrid(a, b) == [slot |-> "missing", gen |-> FALSE, dep |-> "ok", mint |-> "next", amt |-> a, oamt |-> b]
Out(t, a) ==
    IF t \in KernelOutTypes
    THEN [t |-> t, amt |-> a, nk |-> 0, kv |-> "ok", scr |-> "none", mask |-> "zero", wd |-> (t = "submit")]
    ELSE [t |-> t, amt |-> a, nk |-> 1, kv |-> "ok", scr |-> (IF t = "custodian" THEN "t64" ELSE "t1"),
          mask |-> "ok", wd |-> FALSE]
MapsSig(m) == [k |-> "maps", maps |-> m, signers |-> <<>>, built |-> <<>>, sk |-> "G", msg |-> "ok"]
AggSig(s, b, sk, msg) == [k |-> "agg", maps |-> <<>>, signers |-> s, built |-> b, sk |-> sk, msg |-> msg]
Case(w, asset, ins, outs, sig) ==
    [w |-> w, asset |-> asset, fork |-> FALSE, ts |-> "late", ins |-> ins, outs |-> outs,
     refs |-> <<>>, extra |-> "e32", sig |-> sig]

SortedSeq(S) == [j \in 1..Cardinality(S) |-> CHOOSE x \in S : Cardinality({y \in S : y < x}) = j - 1]
Ent(i, s) == [i |-> i, s |-> s]
\* a map from an assignment f : positions -> kind or "-" (absent)
MapOf(f) == LET P == {p \in DOMAIN f : f[p] # "-"}  ps == SortedSeq(P) IN
            [j \in 1..Len(ps) |-> Ent(ps[j], f[ps[j]])]
\* the usual good authorization of a slot: its first thr keys (at least one)
GoodMap(s) == [j \in 1..(IF s.thr = 0 THEN 1 ELSE s.thr) |-> Ent(j - 1, "G")]
GoodMaps(L, ins) == [i \in 1..Len(ins) |->
                        IF InSpecial(ins[i]) \/ ~L.slot[ins[i].slot].exists
                           \/ L.slot[ins[i].slot].typ \notin {"script", "remove"}
                        THEN <<>> ELSE GoodMap(L.slot[ins[i].slot])]

--------------------------------------------------------------------------
(* family S: signature layouts *)
Kinds == {"G", "WK", "WM", "TR", "TS", "GB"}
KindsQ == IF Size = "quick" THEN {"G", "WK", "TS"} ELSE Kinds
Kinds2 == IF Size = "quick" THEN {"G", "WK"} ELSE {"G", "WK", "WM", "TR", "GB"}
Pos(nk) == (0..(nk - 1)) \cup (IF Size = "quick" /\ nk = 3 THEN {nk} ELSE {nk, 65535})

SOut(n) == <<Out("script", U(n))>>
SCase(ins, sig) == Case("A", "OTH", ins, SOut(Len(ins)), sig)

\* one input, every shape, every assignment of kinds to positions, 0 / 1 / 2 maps
MapVariants(m) == IF Size = "quick" THEN {<<>>, <<m>>, <<m, <<>>>>} ELSE {<<>>, <<m>>, <<m, <<>>>>, <<m, m>>}
InitS1 == \E nk \in 1..3, thr \in 0..4 :
          \E f \in [Pos(nk) -> (IF nk = 1 THEN KindsQ ELSE IF nk = 2 THEN Kinds2 ELSE {"G", "WK"}) \cup {"-"}] :
          \E ms \in MapVariants(MapOf(f)) :
             c = SCase(<<In(GridName(nk, thr, "a"))>>, MapsSig(ms))

Shapes2 == IF Size = "quick"
           THEN { <<1, 1, 2, 1>>, <<2, 2, 1, 1>>, <<2, 0, 1, 0>> }
           ELSE { <<1, 1, 1, 1>>, <<1, 1, 2, 1>>, <<2, 1, 1, 1>>, <<2, 2, 2, 1>>, <<1, 0, 2, 2>>, <<2, 0, 1, 0>>,
                  <<2, 1, 3, 2>>, <<1, 2, 1, 1>>, <<2, 2, 1, 1>> }
Pos2(nk) == 0..nk
InitS2 == \E sh \in Shapes2 :
          \E f \in [Pos2(sh[1]) -> {"G", "WK", "-"}], g \in [Pos2(sh[3]) -> {"G", "WM", "-"}] :
          \E ms \in {<<MapOf(f)>>, <<MapOf(f), MapOf(g)>>, <<MapOf(f), MapOf(g), MapOf(g)>>} :
             c = SCase(<<In(GridName(sh[1], sh[2], "a")), In(GridName(sh[3], sh[4], "b"))>>, MapsSig(ms))

InitS3 == \E f \in [0..1 -> {"G", "-"}], g \in [0..2 -> {"G", "TR", "-"}], h \in [0..1 -> {"G", "-"}] :
             c = SCase(<<In("s11a"), In("s21b"), In("s10c")>>, MapsSig(<<MapOf(f), MapOf(g), MapOf(h)>>))

\* aggregate signatures
AggShapes == IF Size = "quick"
             THEN { << <<2, 1>> >>, << <<1, 1>>, <<2, 1>> >>, << <<2, 0>>, <<1, 1>> >> }
             ELSE { << <<2, 1>> >>, << <<3, 2>> >>, << <<2, 0>> >>, << <<1, 1>>, <<2, 1>> >>, << <<2, 1>>, <<2, 2>> >>,
                    << <<2, 0>>, <<1, 1>> >>, << <<1, 1>>, <<1, 1>>, <<2, 1>> >> }
Inst == <<"a", "b", "c">>
AggIns(sh) == [i \in 1..Len(sh) |-> In(GridName(sh[i][1], sh[i][2], Inst[i]))]
AggTotal(sh) == IF Len(sh) = 1 THEN sh[1][1] ELSE IF Len(sh) = 2 THEN sh[1][1] + sh[2][1] ELSE sh[1][1] + sh[2][1] + sh[3][1]
Shift(s, d) == [i \in 1..Len(s) |-> s[i] + d]
Reverse(s) == [i \in 1..Len(s) |-> s[Len(s) + 1 - i]]
SignerVariants(S) ==
    LET s == SortedSeq(S) IN
    {s} \cup (IF Len(s) >= 2 THEN {Reverse(s)} ELSE {}) \cup (IF Len(s) >= 1 THEN {<<s[1]>> \o s} ELSE {})
BuiltVariants(s, sh) ==
    {s, Shift(s, sh[1][1])} \cup (IF Len(s) >= 1 THEN {SubSeq(s, 1, Len(s) - 1)} ELSE {})
InitSA == \E sh \in AggShapes : \E S \in SUBSET (0..AggTotal(sh)) : \E s \in SignerVariants(S) :
          \E b \in BuiltVariants(s, sh) :
          \E km \in {<<"G", "ok">>, <<"G", "bad">>, <<"TS", "ok">>, <<"GB", "ok">>} :
             c = SCase(AggIns(sh), AggSig(s, b, km[1], km[2]))

\* the ends of the threshold range: 64 keys, thresholds 64 and 33
FirstN(n, bad) == [j \in 1..n |-> Ent(j - 1, IF j - 1 = bad THEN "WK" ELSE "G")]
Range(a, b) == [j \in 1..(b - a + 1) |-> a + j - 1]
InitS4 == \E sl \in {"k64a", "k64b"} :
          \/ \E n \in {32, 33, 63, 64}, bad \in {-1, 0, 31, 63} :
                c = SCase(<<In(sl)>>, MapsSig(<<FirstN(n, bad)>>))
          \/ \E n \in {32, 33, 63, 64}, km \in {<<"G", "ok">>, <<"TS", "ok">>} :
                c = SCase(<<In(sl)>>, AggSig(Range(0, n - 1), Range(0, n - 1), km[1], km[2]))
          \/ c = SCase(<<In(sl)>>, AggSig(Range(1, 64), Range(0, 63), "G", "ok"))
          \/ c = SCase(<<In("s11a"), In(sl)>>, AggSig(Range(0, 64), Range(0, 64), "G", "ok"))
          \/ c = SCase(<<In("s11a"), In(sl)>>, AggSig(Range(0, 63), Range(0, 63), "G", "ok"))

\* compensated pairs: two good signatures with S halves shifted by +d / -d
InitS5 == \/ \E a \in {"K1", "G"}, b \in {"K2", "G"} :
               c = SCase(<<In("s22a")>>, MapsSig(<< <<Ent(0, a), Ent(1, b)>> >>))
          \/ \E a \in {"K1", "G"}, b \in {"K2", "G"} :
               c = SCase(<<In("s11a"), In("s11b")>>, MapsSig(<< <<Ent(0, a)>>, <<Ent(0, b)>> >>))
          \/ \E a \in {"K1", "G"}, b \in {"K2", "G"}, d \in {"G", "-"} :
               c = SCase(<<In("s21a"), In("s32b")>>,
                         MapsSig(<< <<Ent(0, a)>>, (IF d = "-" THEN <<Ent(0, "G"), Ent(2, b)>> ELSE <<Ent(0, b), Ent(1, "G"), Ent(2, "G")>>) >>))
          \/ c = SCase(<<In("k64b")>>, MapsSig(<<[j \in 1..40 |-> Ent(j - 1, IF j = 3 THEN "K1" ELSE IF j = 38 THEN "K2" ELSE "G")]>>))

InitS == InitS1 \/ InitS2 \/ InitS3 \/ InitS4 \/ InitS5 \/ InitSA

--------------------------------------------------------------------------
(* family V: values, assets, types (C01) *)
H1 == Amt(0, 1, 0, 0, 0)
H2 == Amt(0, 2, 0, 0, 0)
G1 == Amt(1, 0, 0, 0, 0)
P1 == Amt(0, 0, 0, 1, 0)
Cap(n) == Amt(0, 0, 1, 0, n)          \* capacity of BTC plus n units
AmtsV == IF Size = "quick" THEN {ZeroAmt, U(1), U(2), U(3), H1, H2} ELSE {ZeroAmt, U(1), U(2), U(3), H1, H2, G1}
AmtsSmall == {ZeroAmt, U(1), U(2)}
ScriptOuts(as) == [i \in 1..Len(as) |-> Out("script", as[i])]
OutSeqsV == { <<a>> : a \in AmtsV } \cup { <<a, b>> : a \in AmtsV, b \in AmtsV }
            \cup { <<a, b, d>> : a \in AmtsSmall, b \in AmtsSmall, d \in AmtsSmall }
SinglesV == {"x1", "x2", "x3", "xl", "b1", "o1", "o2", "o3", "oh", "missing"}
PairSetV == IF Size = "quick" THEN {"x1", "x2", "o1", "oh", "oh2"} ELSE {"x1", "x2", "o1", "o2", "oh", "oh2", "b1", "missing"}
VCase(w, asset, ins, outs) == Case(w, asset, ins, outs, MapsSig(GoodMaps(World(w), ins)))

InitV1 == \/ \E sl \in SinglesV, asset \in {"XIN", "BTC", "OTH"}, os \in OutSeqsV, fk \in BOOLEAN :
               /\ (Size = "quick" => Len(os) <= 2)
               /\ (fk => sl = "xl")
               /\ c = [VCase("A", asset, <<In(sl)>>, ScriptOuts(os)) EXCEPT !.fork = fk]
          \/ \E s1 \in PairSetV, s2 \in PairSetV, asset \in {"XIN", "OTH", "BTC"}, os \in OutSeqsV :
               /\ (Size = "quick" => asset = World("A").slot[s1].asset)
               /\ c = VCase("A", asset, <<In(s1), In(s2)>>, ScriptOuts(os))

\* typed outputs in the context in which their type can be accepted
TypeCtx(t) ==
    CASE t = "submit"    -> [slot |-> "x3", extra |-> "e32", refs |-> <<>>, sig |-> "good"]
      [] t = "claim"     -> [slot |-> "xf", extra |-> "claimOK", refs |-> <<"submit">>, sig |-> "good"]
      [] t = "pledge"    -> [slot |-> "x3", extra |-> "pledgeOK", refs |-> <<>>, sig |-> "good"]
      [] t = "accept"    -> [slot |-> "pl", extra |-> "acceptEq", refs |-> <<>>, sig |-> "node"]
      [] t = "remove"    -> [slot |-> "a1", extra |-> "removeEq1", refs |-> <<>>, sig |-> "none"]
      [] t = "cancel"    -> [slot |-> "pl", extra |-> "e96", refs |-> <<>>, sig |-> "node"]
      [] t = "custodian" -> [slot |-> "xs", extra |-> "custOK", refs |-> <<>>, sig |-> "good"]
      [] OTHER           -> [slot |-> "x3", extra |-> "e32", refs |-> <<>>, sig |-> "good"]
OutTypes == {"script", "submit", "claim", "pledge", "accept", "remove", "cancel", "custodian", "slash", "resign", "junk"}

\* signature containers by name (relative to the inputs)
AggGoodSigners(L, ins) ==
    LET RECURSIVE go(_, _)
        go(i, off) == IF i > Len(ins) THEN <<>>
                      ELSE IF InSpecial(ins[i]) \/ ~L.slot[ins[i].slot].exists THEN go(i + 1, off)
                      ELSE LET s == L.slot[ins[i].slot] IN
                           (IF s.typ \in {"script", "remove"}
                            THEN [j \in 1..(IF s.thr = 0 THEN 1 ELSE IF s.thr > s.nk THEN s.nk ELSE s.thr) |-> off + j - 1]
                            ELSE <<>>) \o go(i + 1, off + s.nk)
    IN go(1, 0)
FirstNk(L, ins) == IF Len(ins) >= 1 /\ ~InSpecial(ins[1]) THEN L.slot[ins[1].slot].nk ELSE 1
WithFirst(maps, m) == IF Len(maps) = 0 THEN <<m>> ELSE <<m>> \o Tail(maps)
SigOf(name, L, ins) ==
    LET gm == GoodMaps(L, ins) IN
    CASE name = "none"     -> MapsSig(<<>>)
      [] name = "good"     -> MapsSig(gm)
      [] name = "empty"    -> MapsSig([i \in 1..Len(ins) |-> <<>>])
      [] name = "short"    -> MapsSig(IF Len(gm) = 0 THEN <<>> ELSE SubSeq(gm, 1, Len(gm) - 1))
      [] name = "long"     -> MapsSig(gm \o << <<Ent(0, "G")>> >>)
      [] name = "oor"      -> MapsSig(WithFirst(gm, <<Ent(FirstNk(L, ins), "G")>>))
      [] name = "max"      -> MapsSig(WithFirst(gm, <<Ent(0, "G"), Ent(65535, "G")>>))
      [] name = "cust"     -> MapsSig(WithFirst(gm, <<Ent(0, "C")>>))
      [] name = "node"     -> MapsSig(WithFirst(gm, <<Ent(0, "N")>>))
      [] name = "wk"       -> MapsSig(WithFirst(gm, <<Ent(0, "WK")>>))
      [] name = "custat1"  -> MapsSig(WithFirst(gm, <<Ent(1, "C")>>))
      [] name = "custat7"  -> MapsSig(WithFirst(gm, <<Ent(7, "C")>>))
      [] name = "nodeat1"  -> MapsSig(WithFirst(gm, <<Ent(1, "N")>>))
      [] name = "nodeat7"  -> MapsSig(WithFirst(gm, <<Ent(7, "N")>>))
      [] name = "aggempty" -> AggSig(<<>>, <<>>, "G", "ok")
      [] name = "agggood"  -> LET g == AggGoodSigners(L, ins) IN AggSig(g, g, "G", "ok")
      [] name = "aggoor"   -> LET g == AggGoodSigners(L, ins) IN AggSig(g \o <<60>>, g, "G", "ok")
      [] name = "aggmax"   -> AggSig(<<65535>>, <<65535>>, "G", "ok")

TypedCase(w, ts, t, slot, outs, extra, refs, signame) ==
    LET L0 == World(w)  ins == <<In(slot)>> IN
    [Case(w, "XIN", ins, outs, SigOf(signame, L0, ins)) EXCEPT !.ts = ts, !.extra = extra, !.refs = refs]

AmtNear(a) == {ZeroAmt, U(1), U(2), U(3), U(9999), U(10000), P1, H1, a, AmtAdd(a, U(1))}
               \cup (IF a.n >= 1 THEN {AmtAdd(a, U(-1))} ELSE {})
               \cup (IF a.n >= 2 THEN {AmtAdd(a, U(-2))} ELSE {})
InitV2 == \E t \in OutTypes, w \in {"A", "B"}, ts \in {"gen", "late"} :
          LET x == TypeCtx(t)  sa == World("B").slot[x.slot].amt IN
          \E a \in AmtNear(sa), b \in {ZeroAmt, U(1), U(2)} :
             c = TypedCase(w, ts, t, x.slot,
                           IF AmtSign(b) = 0 THEN <<Out(t, a)>> ELSE <<Out(t, a), Out("script", b)>>,
                           x.extra, x.refs, x.sig)

\* special inputs: mint, deposit, genesis, mixed with ordinary inputs
SpecAmts == IF Size = "quick" THEN {ZeroAmt, U(1), U(3), H1, Cap(-4), Cap(-3)}
            ELSE {ZeroAmt, U(1), U(2), U(3), H1, G1, Cap(-5), Cap(-4), Cap(-3), Cap(0)}
SpecIns(a) ==
    { <<MintIn("next", a)>>, <<DepIn("ok", a)>>, <<GenIn>>, <<In("x1"), MintIn("next", a)>>, <<MintIn("next", a), In("x1")>>,
      <<In("b1"), DepIn("ok", a)>>, <<DepIn("ok", a), In("b1")>>, <<DepIn("ok", a), DepIn("ok", a)>>,
      <<MintIn("next", a), MintIn("next", a)>>, << [MintIn("next", a) EXCEPT !.dep = "ok"] >>,
      <<MintIn("same", a)>>, <<MintIn("back", a)>>, <<MintIn("badgroup", a)>>, <<DepIn("held", a)>>, <<DepIn("otherinfo", a)>>,
      <<DepIn("emptytx", a)>>, <<GenIn, MintIn("next", a)>> }
SpecSigs == {"cust", "wk", "custat1", "none", "empty", "aggempty"}
InitV3 == \E a \in SpecAmts, asset \in {"XIN", "BTC", "OTH", "NEW"}, sg \in SpecSigs :
          \E ins \in SpecIns(a) :
          \E os \in { <<a>>, <<U(1)>>, <<AmtAdd(a, U(1))>>, <<a, U(1)>> } \cup (IF a.n >= 1 THEN {<<AmtAdd(a, U(-1)), U(1)>>} ELSE {}) :
             /\ (Size = "quick" => (sg \in {"cust", "empty"} /\ (asset = "NEW" => Len(ins) = 1) /\ Len(os) = 1))
             /\ (\A i \in 1..Len(os) : AmtCmp(os[i], Amt(0, 0, 0, 0, -1000)) > 0 \/ os[i].c > 0)
             /\ c = [Case("A", asset, ins, ScriptOuts(os), SigOf(sg, World("A"), ins)) EXCEPT !.extra = "e0"]

\* machine-word boundaries: operands just below 2^63, 2^63, 2^64-1, 2^127 and sums crossing 2^64 / 2^128
W1 == AmtW(0, 1, 0)
BoundAmts == <<U(5), AmtW(0, 1, -1), W1, AmtW(0, 1, 5), AmtW(0, 2, -1), AmtW(1, 0, 0), AmtW(1, 0, 5)>>
BoundIns == IF Size = "quick" THEN {U(5), W1, AmtW(0, 2, -1), AmtW(1, 0, 0)}
            ELSE SeqSet(BoundAmts) \cup {AmtW(0, 2, 5), AmtW(2, 0, 5), AmtW(0, 2, 0)}
InitV4 == \/ \E src \in {"mint", "depNEW", "depOTH"}, a \in BoundIns, i \in 1..Len(BoundAmts), j \in 0..Len(BoundAmts) :
               /\ (j = 0 \/ i <= j)
               /\ (Size = "quick" => src # "depOTH")
               /\ LET os == IF j = 0 THEN <<BoundAmts[i]>> ELSE <<BoundAmts[i], BoundAmts[j]>>
                      ins == IF src = "mint" THEN <<MintIn("next", a)>> ELSE <<DepIn("ok", a)>>
                      asset == CASE src = "mint" -> "XIN" [] src = "depNEW" -> "NEW" [] OTHER -> "OTH"
                  IN c = [Case("A", asset, ins, ScriptOuts(os), SigOf(IF src = "mint" THEN "empty" ELSE "cust", World("A"), ins))
                             EXCEPT !.extra = "e0"]
          \/ \E ins \in { <<In("ow1"), In("ow2")>>, <<In("ow1"), In("ow2"), In("o1")>>, <<In("ow1"), In("o1")>> },
                os \in { <<U(1)>>, <<W1, W1>>, <<W1, AmtW(0, 1, 1)>>, <<AmtW(0, 2, 1)>>, <<AmtW(0, 1, 1)>>, <<AmtW(0, 2, 0)>> } :
               c = VCase("A", "OTH", ins, ScriptOuts(os))

\* hybrid inputs: one decoded input carrying several records (mint + deposit with different amounts,
\* a special record on an input that also names an existing output, genesis + record), and inputs
\* naming indexes 255 / 256 / 512 / 1024 of the transaction whose output 0 exists
HybAmts == {U(1), U(10), U(1000), H1}
InitV5 == \/ \E a \in HybAmts, b \in HybAmts, asset \in {"XIN", "NEW"}, sg \in {"empty", "cust"}, pay \in {"a", "b", "ab"} :
               LET ins == <<Hybrid(a, b)>>
                   os == CASE pay = "a" -> <<a>> [] pay = "b" -> <<b>> [] OTHER -> <<a, b>>
               IN c = [Case("A", asset, ins, ScriptOuts(os), SigOf(sg, World("A"), ins)) EXCEPT !.extra = "e0"]
          \/ \E sl \in {"x1", "o1", "pl", "a1"}, a \in {U(1), U(10)}, k \in {"dep", "mint", "gen", "gendep"}, pay \in {0, 1} :
               LET base == CASE k = "dep" -> DepIn("ok", a) [] k = "mint" -> MintIn("next", a)
                             [] k = "gen" -> GenIn [] OTHER -> [DepIn("ok", a) EXCEPT !.gen = TRUE]
                   ins == <<[base EXCEPT !.slot = sl]>>
                   o == IF pay = 0 THEN a ELSE AmtAdd(a, World("B").slot[sl].amt)
               IN c = [Case("B", "XIN", ins, ScriptOuts(<<o>>), SigOf(IF k = "mint" THEN "empty" ELSE "cust", World("B"), ins))
                          EXCEPT !.extra = "e0"]
          \/ \E ix \in {"x1i255", "x1i256", "x1i512", "x1i768", "x1i1024"}, shape \in {"alone", "after", "before", "two"},
                sg \in {"G", "-"}, n \in {1, 2, 3} :
               LET ins == CASE shape = "alone" -> <<In(ix)>> [] shape = "after" -> <<In("x1"), In(ix)>>
                            [] shape = "before" -> <<In(ix), In("x1")>> [] OTHER -> <<In("x1"), In(ix), In("x1i512")>>
                   maps == [i \in 1..Len(ins) |-> IF sg = "G" THEN <<Ent(0, "G")>> ELSE <<>>]
               IN c = Case("A", "XIN", ins, ScriptOuts(<<U(n)>>), MapsSig(maps))

InitV == InitV1 \/ InitV2 \/ InitV3 \/ InitV4 \/ InitV5

--------------------------------------------------------------------------
(* family P: the widened product of shapes (C05) *)
\* The product is cut by a linear design: the index of one dimension is determined by the others,
\*   solved = slice - sum_j W[j] * idx[j]  (mod SliceK),  kept when it is an index of that dimension;
\* a check explores the slices in SliceSet (quick: one slice chosen by the seed, thorough: several).
CONSTANTS SliceK, SliceSet

Solved(sl, idx) ==
    LET W == <<2, 3, 5, 7, 11, 13, 17>>
        RECURSIVE sum(_)
        sum(i) == IF i > Len(idx) THEN 0 ELSE W[i] * idx[i] + sum(i + 1)
        r == (sl - sum(1)) % SliceK
    IN IF r = 0 THEN SliceK ELSE r

PTypes == <<"script", "submit", "claim", "pledge", "accept", "remove", "cancel", "custodian", "slash", "resign", "junk">>
\* output shapes: [nk, kv, scr, mask, wd] or "nat" (the natural shape of the type)
PShapes == << [nk |-> -1, kv |-> "ok", scr |-> "none", mask |-> "zero", wd |-> FALSE],     \* the natural shape
              [nk |-> 0, kv |-> "ok", scr |-> "none", mask |-> "zero", wd |-> FALSE],
              [nk |-> 1, kv |-> "ok", scr |-> "t1", mask |-> "ok", wd |-> FALSE],
              [nk |-> 1, kv |-> "ok", scr |-> "t64", mask |-> "ok", wd |-> FALSE],
              [nk |-> 2, kv |-> "dup", scr |-> "t1", mask |-> "ok", wd |-> FALSE],
              [nk |-> 1, kv |-> "bad", scr |-> "t1", mask |-> "ok", wd |-> FALSE],
              [nk |-> 1, kv |-> "used", scr |-> "t1", mask |-> "ok", wd |-> FALSE],
              [nk |-> 1, kv |-> "ok", scr |-> "t65", mask |-> "ok", wd |-> FALSE],
              [nk |-> 1, kv |-> "ok", scr |-> "short", mask |-> "ok", wd |-> FALSE],
              [nk |-> 1, kv |-> "ok", scr |-> "none", mask |-> "zero", wd |-> FALSE],
              [nk |-> 1, kv |-> "ok", scr |-> "t1", mask |-> "bad", wd |-> FALSE],
              [nk |-> 2, kv |-> "ok", scr |-> "t2", mask |-> "ok", wd |-> TRUE],
              [nk |-> 0, kv |-> "ok", scr |-> "badop", mask |-> "ok", wd |-> TRUE] >>
Shaped(t, a, sh) == IF sh.nk = -1 THEN Out(t, a)
                    ELSE [t |-> t, amt |-> a, nk |-> sh.nk, kv |-> sh.kv, scr |-> sh.scr, mask |-> sh.mask, wd |-> sh.wd]
PIns == << <<In("x3")>>, <<In("x1")>>, <<In("x2")>>, <<In("xf")>>, <<In("xs")>>, <<In("xl")>>, <<In("xt0")>>, <<In("xt3")>>,
           <<In("a1")>>, <<In("a2")>>, <<In("rm")>>, <<In("cn")>>, <<In("pl")>>, <<In("cl")>>, <<In("cu")>>, <<In("b1")>>,
           <<In("oh")>>, <<In("missing")>>, <<In("badidx")>>, <<In("sub0")>>,
           <<MintIn("next", U(3))>>, <<DepIn("ok", U(3))>>, <<GenIn>>, <<In("x1"), MintIn("next", U(3))>>,
           <<MintIn("next", U(3)), In("x1")>>, <<In("x1"), DepIn("ok", U(3))>>, <<DepIn("ok", U(3)), DepIn("ok", U(3))>>,
           << [MintIn("next", U(3)) EXCEPT !.dep = "ok"] >>, <<In("x1"), In("x1")>>, <<In("x1"), In("x2")>>,
           <<In("x1"), In("pl")>>, <<In("pl"), In("x1")>>, <<In("a1"), In("x1")>>, <<In("rm"), In("xt0")>>,
           <<In("xt0"), GenIn>>, <<>> >>
PSigs == <<"good", "none", "empty", "short", "long", "oor", "max", "cust", "node", "wk", "aggempty", "agggood", "aggoor", "aggmax">>
PSecond == <<"none", "script", "same">>

InAmt(L0, ins) ==
    LET fi == FirstSpecialIn([ins |-> ins]) IN
    IF fi # 0 THEN ins[fi].amt
    ELSE AmtSum([i \in 1..Len(ins) |-> L0.slot[ins[i].slot].amt])

NatExtra(t) == TypeCtx(t).extra
NatRefs(t) == TypeCtx(t).refs

InitP1 == \E sl \in SliceSet, ti \in 1..Len(PTypes), si \in 1..Len(PShapes), gi \in 1..Len(PSigs), oi \in 1..Len(PSecond) :
          LET ii == Solved(sl, <<ti, si, gi, oi>>) IN
          /\ ii <= Len(PIns)
          /\ LET t == PTypes[ti]  ins == PIns[ii]  L0 == World("B")
                 tot == InAmt(L0, ins)
                 a == IF PSecond[oi] = "none" \/ AmtCmp(tot, U(1)) <= 0 THEN (IF AmtSign(tot) > 0 THEN tot ELSE U(1))
                      ELSE AmtAdd(tot, U(-1))
                 o1 == Shaped(t, a, PShapes[si])
                 outs == CASE PSecond[oi] = "none" -> <<o1>>
                           [] PSecond[oi] = "script" -> <<o1, Out("script", U(1))>>
                           [] OTHER -> <<o1, Shaped(t, U(1), PShapes[si])>>
             IN c = [Case("B", "XIN", ins, outs, SigOf(PSigs[gi], L0, ins))
                        EXCEPT !.extra = NatExtra(t), !.refs = NatRefs(t)]

\* values: amount class, extra class, references, environment
PTypes2 == PTypes \o <<"mint", "deposit">>
ConsAmt == Amt(-1, 0, 0, 0, 0)     \* stands for "the input amount"
PAmts == <<ConsAmt, ZeroAmt, U(1), U(10000), P1, H1, G1, Amt(2, 0, 0, 0, 0)>>
PExtras == <<"nat", "e0", "e1", "e32", "e63", "e64", "e96", "e256", "e257", "e1024", "e1025", "e2048", "e2049", "pledgeOK",
             "pledgeBadKey", "pledgeSigner", "pledgePayee", "acceptEq", "removeEq1", "removeEq2", "claimOK", "claimBad",
             "custOK", "custBadSig", "custUnsorted", "custShort", "cust6">>
PRefs == << <<"nat">>, <<>>, <<"fin">>, <<"submit">>, <<"pend">>, <<"miss">>, <<"fin", "submit">>, [i \in 1..16 |-> "fin"],
            [i \in 1..17 |-> "fin"] >>
PEnvs == << <<"XIN", "late", "B", FALSE>>, <<"XIN", "gen", "B", FALSE>>, <<"XIN", "late", "A", FALSE>>, <<"XIN", "late", "B", TRUE>>,
            <<"BTC", "late", "B", FALSE>>, <<"OTH", "late", "A", FALSE>>, <<"NEW", "late", "B", FALSE>>, <<"XIN", "gen", "A", TRUE>> >>
PStore == <<FALSE, TRUE>>       \* give the first output the storage shape (one key, script fffe40)

InitP2 == \E sl \in SliceSet, ti \in 1..Len(PTypes2), ai \in 1..Len(PAmts), ri \in 1..Len(PRefs),
             vi \in 1..Len(PEnvs), st \in 1..Len(PStore) :
          LET ei == Solved(sl, <<ti, ai, ri, vi, st>>) IN
          /\ ei <= Len(PExtras)
          /\ LET t == PTypes2[ti]  env == PEnvs[vi]  L0 == World(env[3])
                 ot == IF t \in {"mint", "deposit"} THEN "script" ELSE t
                 ins == CASE t = "mint" -> <<MintIn("next", IF PAmts[ai] = ConsAmt THEN U(3) ELSE PAmts[ai])>>
                          [] t = "deposit" -> <<DepIn("ok", IF PAmts[ai] = ConsAmt THEN U(3) ELSE PAmts[ai])>>
                          [] OTHER -> <<In(TypeCtx(t).slot)>>
                 tot == InAmt(L0, ins)
                 a == IF PAmts[ai] = ConsAmt THEN (IF AmtSign(tot) > 0 THEN tot ELSE U(1)) ELSE PAmts[ai]
                 o0 == Out(ot, a)
                 o1 == IF PStore[st] THEN [o0 EXCEPT !.nk = 1, !.scr = "t64", !.mask = "ok"] ELSE o0
                 sg == CASE t = "deposit" -> "cust" [] t = "mint" -> "empty" [] OTHER -> TypeCtx(t).sig
             IN c = [Case(env[3], env[1], ins, <<o1>>, SigOf(sg, L0, ins))
                        EXCEPT !.ts = env[2], !.fork = env[4],
                               !.extra = (IF PExtras[ei] = "nat" THEN NatExtra(ot) ELSE PExtras[ei]),
                               !.refs = (IF PRefs[ri] = <<"nat">> THEN NatRefs(ot) ELSE PRefs[ri])]

\* a fixed core, independent of the slice: every type in natural and storage shape, with and
\* without signature material, with ordinary and extreme amounts
InitP0 == \E t \in SeqSet(PTypes), store \in BOOLEAN, sn \in {"nat", "x1", "rm", "xt0"},
             sg \in {"good", "none", "empty", "aggempty"}, a \in {ConsAmt, H1, G1} :
          LET L0 == World("B")
              slot == IF sn = "nat" THEN TypeCtx(t).slot ELSE sn
              ins == <<In(slot)>>
              a1 == IF a = ConsAmt THEN L0.slot[slot].amt ELSE a
              o0 == Out(t, a1)
              o1 == IF store THEN [o0 EXCEPT !.nk = 1, !.scr = "t64", !.mask = "ok"] ELSE o0
          IN c = [Case("B", "XIN", ins, <<o1>>, SigOf(sg, L0, ins))
                     EXCEPT !.extra = NatExtra(t), !.refs = NatRefs(t)]

\* core: every input configuration with every signature container (script type)
InitP0b == \E ii \in 1..Len(PIns), gi \in 1..Len(PSigs) :
           LET L0 == World("B")  ins == PIns[ii]  tot == InAmt(L0, ins) IN
           c = [Case("B", "XIN", ins, <<Out("script", IF AmtSign(tot) > 0 THEN tot ELSE U(1))>>, SigOf(PSigs[gi], L0, ins))
                   EXCEPT !.extra = "e0"]
\* core: every type (with mint and deposit) in its natural context with every extra class and
\* with every signature container
InitP0c == \E ti \in 1..Len(PTypes2) :
           LET t == PTypes2[ti]  L0 == World("B")
               ot == IF t \in {"mint", "deposit"} THEN "script" ELSE t
               ins == CASE t = "mint" -> <<MintIn("next", U(3))>> [] t = "deposit" -> <<DepIn("ok", U(3))>>
                        [] OTHER -> <<In(TypeCtx(t).slot)>>
               tot == InAmt(L0, ins)
               natsig == CASE t = "deposit" -> "cust" [] t = "mint" -> "empty" [] OTHER -> TypeCtx(t).sig
           IN \/ \E ei \in 2..Len(PExtras) :
                    c = [Case("B", "XIN", ins, <<Out(ot, tot)>>, SigOf(natsig, L0, ins))
                            EXCEPT !.extra = PExtras[ei], !.refs = NatRefs(ot)]
              \/ \E gi \in 1..Len(PSigs) :
                    c = [Case("B", "XIN", ins, <<Out(ot, tot)>>, SigOf(PSigs[gi], L0, ins))
                            EXCEPT !.extra = NatExtra(ot), !.refs = NatRefs(ot)]

\* core: cancel-typed transactions spending the real pending pledge output, with the 96-byte extra
\* whose tail is used as a scalar by the cancel rule
InitP0d == \E wt \in {<<"B", "late">>, <<"B", "gen">>, <<"A", "late">>}, e \in {"cancelOK", "cancelFF", "cancelZero", "e96"},
              sg \in {"node", "wk", "none"}, a \in {U(1), U(2)}, sh \in {<<1, "t1">>, <<2, "t1">>, <<1, "t2">>} :
           LET L0 == World(wt[1])  ins == <<In("pl")>>
               o2 == [Out("script", U(100 - a.n)) EXCEPT !.nk = sh[1], !.scr = sh[2]]
           IN c = [Case(wt[1], "XIN", ins, <<Out("cancel", a), o2>>, SigOf(sg, L0, ins)) EXCEPT !.ts = wt[2], !.extra = e]

\* core: deposits of an asset the ledger knows with a recorded total of exactly zero (deposited once,
\* withdrawn in full), under every signature container
InitP0e == \E w \in {"A", "B"}, a \in {ZeroAmt, U(1), U(3), H1, G1}, dv \in {"ok", "held", "otherinfo"},
              sg \in {"cust", "wk", "custat1", "custat7", "empty", "none", "aggempty"} :
           LET ins == <<DepIn(dv, a)>> IN
           c = [Case(w, "ZER", ins, <<Out("script", a)>>, SigOf(sg, World(w), ins)) EXCEPT !.extra = "e0"]
\* core: the single signature of node-operation and deposit transactions filed under a wrong map index
InitP0f == \E t \in {"accept", "cancel", "deposit", "pledge", "remove"}, wt \in {<<"B", "late">>, <<"B", "gen">>, <<"A", "late">>},
              sg \in {"node", "nodeat1", "nodeat7", "cust", "custat1", "custat7", "wk", "max"} :
           LET L0 == World(wt[1])
               ins == IF t = "deposit" THEN <<DepIn("ok", U(3))>> ELSE <<In(TypeCtx(t).slot)>>
               tot == InAmt(World("B"), ins)
               outs == CASE t = "deposit" -> <<Out("script", tot)>>
                         [] t = "cancel" -> <<Out("cancel", U(1)), Out("script", U(99))>>
                         [] OTHER -> <<Out(t, tot)>>
           IN c = [Case(wt[1], "XIN", ins, outs, SigOf(sg, L0, ins))
                      EXCEPT !.ts = wt[2], !.extra = (IF t = "cancel" THEN "cancelOK" ELSE IF t = "deposit" THEN "e0" ELSE NatExtra(t))]

InitP == InitP0 \/ InitP0b \/ InitP0c \/ InitP0d \/ InitP0e \/ InitP0f \/ InitP1 \/ InitP2

--------------------------------------------------------------------------
Init == CASE Family = "S" -> InitS
          [] Family = "V" -> InitV
          [] Family = "P" -> InitP
          [] OTHER -> FALSE
Next == FALSE /\ UNCHANGED c      \* a decision table has no steps
Spec == Init /\ [][Next]_vars

L == World(c.w)
D == Decide(c, L)

\* design-level theorems
TypeOK == D \in Outcomes                                   \* C05: the decision is total
AcceptedConserves == (D = "ok") => Conserves(c, L)          \* C01
AcceptedAuthorized == (D = "ok") => AuthOK(c, L)            \* C02

\* non-vacuity witnesses (must be violated)
NoAccept == D # "ok"
NoAcceptAgg == ~(D = "ok" /\ c.sig.k = "agg")
NoAcceptMulti == ~(D = "ok" /\ Len(c.ins) >= 2)

EmitCase == PrintT("CASE " \o ToJson([c |-> c, d |-> D]))
=============================================================================
