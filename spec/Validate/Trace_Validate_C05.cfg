SPECIFICATION Spec
CONSTANTS
  Mode = "C05"
CONSTRAINT HW
POSTCONDITION Accepted
CHECK_DEADLOCK FALSE
