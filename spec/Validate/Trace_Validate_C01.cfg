SPECIFICATION Spec
CONSTANTS
  Mode = "C01"
CONSTRAINT HW
POSTCONDITION Accepted
CHECK_DEADLOCK FALSE
