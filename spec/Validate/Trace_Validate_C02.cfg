SPECIFICATION Spec
CONSTANTS
  Mode = "C02"
CONSTRAINT HW
POSTCONDITION Accepted
CHECK_DEADLOCK FALSE
