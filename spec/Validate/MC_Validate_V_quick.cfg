\* Exhaustive decision-table check of family V (quick dimensions). The driver (tools/props/validate.py)
\* writes the same configuration plus "CONSTRAINT EmitCase" (Gen_Validate_V_quick.cfg) into its scratch
\* directory, with SliceSet chosen from VERIF_SEED for family P.
SPECIFICATION Spec
CONSTANTS
  Family = "V"
  Size = "quick"
  SliceK = 151
  SliceSet = {0}
INVARIANT TypeOK
INVARIANT AcceptedConserves
INVARIANT AcceptedAuthorized
CHECK_DEADLOCK FALSE
