#!/usr/bin/env python3
"""Shared driver library for /verif checks.

Pipeline of a check (see DESIGN.md section 4):
  E3  tlc_mc()      exhaustive / simulated TLC run of the bounded specification
  E1  tlc_edges()   TLC run with ACTION_CONSTRAINT Emit -> state-graph edges -> walks
      go_harness()  in-package Go harness (go test -overlay) executes the walks / drivers on
                    the real code of /repo's working tree and records an NDJSON trace
  E2  tlc_trace()   TLC validates the recorded trace against the trace specification

Exit codes: 0 held, 1 violation (VIOLATION line printed), 2 infrastructure problem.
"""
import json, os, re, shutil, subprocess, sys, tempfile, time, hashlib, random, glob

VERIF = os.path.dirname(os.path.dirname(os.path.abspath(__file__)))
REPO = os.environ.get("VERIF_REPO", "/repo")
GO = "go1.26"
TLA_JAR = "/opt/veriftools/tla/tla2tools.jar:/opt/veriftools/tla/CommunityModules-deps.jar"
PKGS = ["common", "crypto", "storage", "kernel", "p2p"]


class Infra(Exception):
    pass


def goenv():
    env = dict(os.environ)
    env.update({
        "GOFLAGS": "-mod=mod", "GOPROXY": "off", "GOSUMDB": "off", "GOTOOLCHAIN": "local",
        "GONOSUMDB": "*", "GONOSUMCHECK": "1",
    })
    return env


def write_overlay(path=None, exclude=()):
    """Overlay that ADDS /verif/harness/inpkg/<pkg>/*.go to /repo/<pkg>/ (never replaces)."""
    path = path or os.path.join(VERIF, "overlay.json")
    rep = {}
    for pkg in PKGS:
        d = os.path.join(VERIF, "harness", "inpkg", pkg)
        if not os.path.isdir(d):
            continue
        for f in sorted(os.listdir(d)):
            if f.endswith(".go") and f not in exclude:
                dst = os.path.join(REPO, pkg, f)
                if os.path.exists(dst):
                    raise Infra("overlay would replace existing file %s" % dst)
                rep[dst] = os.path.join(d, f)
        # shared helper rendered per package
        tmpl = open(os.path.join(VERIF, "harness", "shared", "vtrace.go.tmpl")).read()
        gen = os.path.join(os.path.dirname(path), "gen_%s_vtrace_test.go" % pkg)
        with open(gen, "w") as fh:
            fh.write(tmpl.replace("PKGNAME", pkg))
        rep[os.path.join(REPO, pkg, "zz_verif_vtrace_test.go")] = gen
    with open(path, "w") as fh:
        json.dump({"Replace": rep}, fh, indent=1)
    return path


class Ctx:
    def __init__(self, pid, tier, seed):
        self.pid = pid
        self.tier = tier
        self.seed = seed
        self.t0 = time.time()
        self.scratch = tempfile.mkdtemp(prefix="verif-%s-" % pid)
        self.cov = {}
        self.assumptions = []
        self.samples = []
        self.known_reached = []
        self.violations = []
        self.mismatches = []
        self.notes = []
        self.states = 0
        self.transitions = 0
        self.traces = 0
        self.evaluations = 0
        self.distinct = 0
        self.exhaustive = None
        self.checker_cmds = []
        self.rule = ""

    # ------------------------------------------------------------------ utils
    def log(self, *a):
        print("[%s %6.1fs]" % (self.pid, time.time() - self.t0), *a, flush=True)

    def cleanup(self):
        shutil.rmtree(self.scratch, ignore_errors=True)
        if getattr(self, "shm", None):
            shutil.rmtree(self.shm, ignore_errors=True)

    def harness_tmp(self):
        """Temp dir for harness processes: RAM-backed when available (Badger stores of the harnesses
        are opened with SyncWrites; crash points are simulated in-process, so no real fsync is needed)."""
        if getattr(self, "shm", None) is None:
            self.shm = ""
            if os.path.isdir("/dev/shm") and os.access("/dev/shm", os.W_OK):
                try:
                    self.shm = tempfile.mkdtemp(prefix="verif-%s-" % self.pid, dir="/dev/shm")
                except OSError:
                    self.shm = ""
        return self.shm or self.scratch

    def specdir(self, *mods):
        """Scratch copy of spec/lib + the named spec directories; TLC runs there."""
        d = tempfile.mkdtemp(prefix="spec-", dir=self.scratch)
        for m in ("lib",) + mods:
            src = os.path.join(VERIF, "spec", m)
            for f in os.listdir(src):
                if f.endswith((".tla", ".cfg")):
                    shutil.copy(os.path.join(src, f), d)
        return d

    # ------------------------------------------------------------------ TLC
    def _tlc(self, d, tla, cfg, workers, extra, timeout, env=None, xss=False, dfs=False):
        meta = tempfile.mkdtemp(prefix="meta-", dir=self.scratch)
        e = dict(os.environ)
        jopts = []
        if xss:
            jopts.append("-Xss512m")
        if dfs:
            jopts.append("-Dtlc2.tool.queue.IStateQueue=StateDeque")
        if jopts:
            e["JAVA_TOOL_OPTIONS"] = " ".join(jopts)
        if env:
            e.update(env)
        cmd = ["java", "-XX:+UseParallelGC", "-cp", TLA_JAR, "tlc2.TLC", "-workers", str(workers),
               "-metadir", meta, "-config", cfg] + list(extra) + [tla]
        self.checker_cmds.append("tlc -workers %s -config %s %s %s" % (workers, cfg, " ".join(extra), tla))
        try:
            p = subprocess.run(cmd, cwd=d, env=e, stdout=subprocess.PIPE, stderr=subprocess.STDOUT,
                               timeout=timeout, text=True, errors="replace")
        except subprocess.TimeoutExpired:
            raise Infra("TLC timeout after %ss on %s/%s" % (timeout, tla, cfg))
        finally:
            shutil.rmtree(meta, ignore_errors=True)
        return p.returncode, p.stdout

    @staticmethod
    def _stats(out):
        m = re.findall(r"(\d+) states generated, (\d+) distinct states found", out)
        gen, dist = (int(m[-1][0]), int(m[-1][1])) if m else (0, 0)
        return gen, dist

    def tlc_mc(self, d, tla, cfg, workers=8, extra=(), timeout=900, xss=False, expect_violation=None, count=True):
        """Exhaustive (or -simulate) design-level run. A violated invariant here is a model
        problem (exit 2) unless expect_violation names it (non-vacuity witness)."""
        rc, out = self._tlc(d, tla, cfg, workers, extra, timeout, xss=xss)
        gen, dist = self._stats(out)
        if count:
            self.transitions += gen
            self.states += dist
        viol = re.search(r"Invariant (\S+) is violated|Action property (\S+) is violated|Temporal properties were violated", out)
        if expect_violation:
            if not viol or expect_violation not in viol.group(0):
                raise Infra("non-vacuity witness %s not reached in %s/%s\n%s" % (expect_violation, tla, cfg, out[-1500:]))
            return {"generated": gen, "distinct": dist, "out": out}
        if viol or "Error:" in out or rc != 0:
            raise Infra("design-level TLC run %s/%s did not pass (model problem, not a verdict on the code):\n%s"
                        % (tla, cfg, out[-3000:]))
        self.log("E3 %s/%s: %d generated, %d distinct" % (tla, cfg, gen, dist))
        return {"generated": gen, "distinct": dist, "out": out}

    def tlc_edges(self, d, tla, cfg, timeout=900, xss=False, tag="EDGE "):
        """Run with ACTION_CONSTRAINT Emit and collect every emitted edge (JSON)."""
        rc, out = self._tlc(d, tla, cfg, 1, (), timeout, xss=xss)
        if "Error:" in out or rc != 0:
            raise Infra("edge emission run failed %s/%s:\n%s" % (tla, cfg, out[-3000:]))
        edges = []
        for line in out.splitlines():
            line = line.strip()
            if line.startswith('"' + tag):
                # PrintT of a string prints it quoted with escapes
                s = json.loads(line)
                edges.append(json.loads(s[len(tag):]))
        gen, dist = self._stats(out)
        self.log("E1 %s/%s: %d edges emitted (%d distinct states)" % (tla, cfg, len(edges), dist))
        return edges

    def tlc_sim(self, d, tla, cfg, num, depth, timeout=900, xss=False, tag="EDGE "):
        """Random behaviours of the specification: tlc -simulate with ACTION_CONSTRAINT Emit.
        Returns a list of walks (lists of emitted edges), split where a behaviour restarts from
        the initial state. Seeded by VERIF_SEED."""
        extra = ("-simulate", "num=%d" % num, "-depth", str(depth), "-seed", str(self.seed))
        rc, out = self._tlc(d, tla, cfg, 1, extra, timeout, xss=xss)
        if "Error:" in out and "violated" in out:
            raise Infra("simulation run reported a violation (model problem) %s/%s:\n%s" % (tla, cfg, out[-3000:]))
        walks, cur, init = [], [], None
        for line in out.splitlines():
            line = line.strip()
            if line.startswith('"' + tag):
                e = json.loads(json.loads(line)[len(tag):])
                k = canon(e["from"])
                if init is None:
                    init = k
                if k == init and cur:
                    walks.append(cur)
                    cur = []
                cur.append(e)
        if cur:
            walks.append(cur)
        self.log("E1 %s/%s: %d simulated behaviours, %d steps" % (tla, cfg, len(walks), sum(len(w) for w in walks)))
        return walks

    def tlc_trace(self, d, tla, cfg, trace_file, timeout=900, xss=False, dfs=True):
        """Validate a recorded trace. Returns dict(accepted, line, event, invariant, out)."""
        rc, out = self._tlc(d, tla, cfg, 1, (), timeout, env={"VERIF_TRACE": trace_file}, xss=xss, dfs=dfs)
        res = {"accepted": False, "line": None, "event": None, "invariant": None, "out": out}
        m = re.search(r"Invariant (\S+) is violated", out)
        if m:
            res["invariant"] = m.group(1)
            ls = re.findall(r"^(?:/\\ )?l = (\d+)", out, re.M)
            if ls:
                res["line"] = int(ls[-1]) - 1
            return res
        m = re.search(r'"TRACE-REJECTED-AT-LINE", (\d+), "OF", (\d+)', out)
        if m:
            res["line"] = int(m.group(1))
            return res
        if "Error:" in out and "TRACE-REJECTED" not in out:
            if "postcondition" in out.lower() and "violated" in out.lower():
                return res
            raise Infra("trace validation run failed %s/%s:\n%s" % (tla, cfg, out[-3000:]))
        if rc != 0:
            raise Infra("trace validation exit %d %s/%s:\n%s" % (rc, tla, cfg, out[-3000:]))
        res["accepted"] = True
        return res

    # ------------------------------------------------------------------ Go
    def go_harness(self, pkg, run, env=None, timeout=1500, tags="verif", race=False):
        """Run an in-package harness (overlay) against /repo's working tree.

        Harness files of other properties that do not compile against the current tree are left
        out (one broken harness must not disable the other checks of the same package); if the
        file holding the requested test is itself affected this is an infrastructure error."""
        e = goenv()
        e["VERIF_SEED"] = str(self.seed)
        e["VERIF_TIER"] = self.tier
        e["TMPDIR"] = self.harness_tmp()
        if env:
            e.update({k: str(v) for k, v in env.items()})
        exclude = set()
        for attempt in range(8):
            ov = write_overlay(os.path.join(self.scratch, "overlay.json"), exclude=exclude)
            cmd = [GO, "test", "-tags", tags, "-overlay", ov, "-count=1", "-vet=off",
                   "-timeout", "%ds" % timeout, "-run", run, "./" + pkg]
            if race:
                cmd.insert(2, "-race")
            try:
                p = subprocess.run(cmd, cwd=REPO, env=e, stdout=subprocess.PIPE, stderr=subprocess.STDOUT,
                                   timeout=timeout + 60, text=True, errors="replace")
            except subprocess.TimeoutExpired:
                raise Infra("go harness timeout %s %s" % (pkg, run))
            out = p.stdout
            if "[build failed]" in out or "[setup failed]" in out:
                bad = set(re.findall(r"(zz_verif_\w+_test\.go):\d+", out)) - {"zz_verif_vtrace_test.go"}
                mine = set()
                tname = run.strip("^$")
                hd = os.path.join(VERIF, "harness", "inpkg", pkg)
                for f in os.listdir(hd):
                    if f.endswith(".go") and re.search(r"func %s\b" % re.escape(tname), open(os.path.join(hd, f)).read()):
                        mine.add(f)
                new = bad - exclude - mine
                if new and not (bad & mine):
                    exclude |= new
                    self.notes.append("harness files left out of the build (do not compile): %s" % sorted(new))
                    continue
                raise Infra("harness does not build against the current tree (%s %s):\n%s" % (pkg, run, out[-3000:]))
            break
        self.checker_cmds.append(" ".join(cmd[:2] + ["-tags", tags, "-overlay overlay.json -run", run, "./" + pkg]))
        if "no tests to run" in out:
            raise Infra("harness %s not found in %s" % (run, pkg))
        if p.returncode != 0:
            # the harness itself never fails on property grounds: verdicts come from TLC.
            raise Infra("harness %s %s exited %d:\n%s" % (pkg, run, p.returncode, out[-4000:]))
        return out

    def go_harness_sharded(self, pkg, run, shards, env=None, timeout=1500, trace_prefix=None):
        """Compile the in-package harness once (go test -c) and run it as `shards` parallel
        processes (VERIF_SHARD=i, VERIF_SHARDS=n, VERIF_TRACE=<prefix>.<i>). Returns the list of
        trace files. Same build-robustness rule as go_harness."""
        e = goenv()
        e["VERIF_SEED"] = str(self.seed)
        e["VERIF_TIER"] = self.tier
        e["TMPDIR"] = self.harness_tmp()
        if env:
            e.update({k: str(v) for k, v in env.items()})
        exclude = set()
        binp = os.path.join(self.scratch, "harness_%s.test" % pkg)
        for attempt in range(8):
            ov = write_overlay(os.path.join(self.scratch, "overlay.json"), exclude=exclude)
            cmd = [GO, "test", "-tags", "verif", "-overlay", ov, "-vet=off", "-c", "-o", binp, "./" + pkg]
            p = subprocess.run(cmd, cwd=REPO, env=e, stdout=subprocess.PIPE, stderr=subprocess.STDOUT,
                               timeout=900, text=True, errors="replace")
            out = p.stdout
            if p.returncode != 0:
                bad = set(re.findall(r"(zz_verif_\w+_test\.go):\d+", out)) - {"zz_verif_vtrace_test.go"}
                mine = set()
                tname = run.strip("^$")
                hd = os.path.join(VERIF, "harness", "inpkg", pkg)
                for f in os.listdir(hd):
                    if f.endswith(".go") and re.search(r"func %s\b" % re.escape(tname), open(os.path.join(hd, f)).read()):
                        mine.add(f)
                new = bad - exclude - mine
                if new and not (bad & mine):
                    exclude |= new
                    self.notes.append("harness files left out of the build (do not compile): %s" % sorted(new))
                    continue
                raise Infra("harness does not build against the current tree (%s %s):\n%s" % (pkg, run, out[-3000:]))
            break
        self.checker_cmds.append("%s test -tags verif -overlay overlay.json -c ./%s ; %d x harness.test -test.run %s" % (GO, pkg, shards, run))
        prefix = trace_prefix or os.path.join(self.scratch, "trace_%s" % pkg)
        procs = []
        for i in range(shards):
            ee = dict(e)
            ee.update({"VERIF_SHARD": str(i), "VERIF_SHARDS": str(shards), "VERIF_TRACE": "%s.%d" % (prefix, i)})
            procs.append(subprocess.Popen([binp, "-test.run", run, "-test.count=1", "-test.timeout", "%ds" % timeout],
                                          cwd=os.path.join(REPO, pkg), env=ee, stdout=subprocess.PIPE,
                                          stderr=subprocess.STDOUT, text=True, errors="replace"))
        files = []
        for i, pr in enumerate(procs):
            try:
                out, _ = pr.communicate(timeout=timeout + 60)
            except subprocess.TimeoutExpired:
                for q in procs:
                    q.kill()
                raise Infra("go harness shard timeout %s %s" % (pkg, run))
            if pr.returncode != 0:
                for q in procs:
                    q.kill()
                raise Infra("harness %s %s shard %d exited %d:\n%s" % (pkg, run, i, pr.returncode, out[-4000:]))
            files.append("%s.%d" % (prefix, i))
        try:
            os.remove(binp)
        except OSError:
            pass
        return files

    # ------------------------------------------------------------------ verdict helpers
    def violation(self, what, replay_obj):
        os.makedirs(os.path.join(VERIF, "replays", self.pid), exist_ok=True)
        blob = json.dumps(replay_obj, sort_keys=True, default=str)
        h = hashlib.sha256(blob.encode()).hexdigest()[:16]
        path = os.path.join(VERIF, "replays", self.pid, h + ".json")
        with open(path, "w") as fh:
            json.dump({"property": self.pid, "what": what, "seed": self.seed, "tier": self.tier,
                       "replay": replay_obj}, fh, indent=1, default=str)
        self.violations.append((what, path))

    def known(self):
        p = os.environ.get("VERIF_KNOWN") or os.path.join(VERIF, "known_findings.json")
        if not os.path.exists(p):
            return []
        with open(p) as fh:
            kf = json.load(fh)
        return [k for k in kf.get("known", []) if k["property"] == self.pid]

    def finish(self, level=None):
        if level is None:
            level = "model_checking"
            try:
                level = json.load(open(os.path.join(VERIF, "checks", self.pid + ".json"))).get("category", level)
            except (OSError, ValueError):
                pass
        wall = time.time() - self.t0
        cov = {
            "states": self.states, "transitions": self.transitions,
            "traces_validated_against_impl": self.traces,
            "evaluations": self.evaluations, "distinct_nontrivial": self.distinct,
            "rule": self.rule, "samples": self.samples[:6],
            "checker_cmd": " ; ".join(self.checker_cmds)[:4000],
            "trusted_base": ["TLC 1.8.0 (tla2tools.jar)", "Go 1.26 toolchain", "Badger durability/atomicity",
                             "harness concretization functions under /verif/harness"],
            "conformance_mismatches": self.mismatches[:20],
            "known_findings_reached": self.known_reached,
            "notes": self.notes,
        }
        if self.exhaustive is not None:
            cov["exhaustive"] = self.exhaustive
        cov.update(self.cov)
        ev = {"property_id": self.pid, "tier": self.tier, "seed": self.seed, "level": level,
              "coverage": cov, "assumptions": self.assumptions, "wall_s": round(wall, 2),
              "violations": len(self.violations)}
        # runs against a changed scratch copy (VERIF_REPO=...) may keep their evidence apart
        evdir = os.environ.get("VERIF_EVIDENCE_DIR") or os.path.join(VERIF, "evidence")
        os.makedirs(evdir, exist_ok=True)
        with open(os.path.join(evdir, self.pid + ".json"), "w") as fh:
            json.dump(ev, fh, indent=1, default=str)
        for k in self.known_reached:
            print("KNOWN-FINDING: property=%s %s" % (self.pid, k), flush=True)
        for what, path in self.violations:
            print("VIOLATION property=%s replay=%s" % (self.pid, path), flush=True)
            print("  " + what, flush=True)
        self.log("done: states=%d transitions=%d traces=%d evaluations=%d distinct=%d violations=%d wall=%.1fs"
                 % (self.states, self.transitions, self.traces, self.evaluations, self.distinct,
                    len(self.violations), wall))
        return 1 if self.violations else 0


# ---------------------------------------------------------------------- walks
def canon(x):
    return json.dumps(x, sort_keys=True)


def build_walks(edges, init=None, rng=None, n_random=0, depth=12, act_key="o", maxlen=40):
    """Edge cover by greedy tours: from the initial state follow uncovered edges; when none leaves
    the current state take the shortest path to a state that has one; start a new walk after
    maxlen steps or when nothing uncovered is reachable. Every edge of the graph is executed at
    least once. Plus n_random seeded random walks of the given depth."""
    from collections import deque
    sid = {}

    def S(x):
        k = canon(x)
        if k not in sid:
            sid[k] = len(sid)
        return sid[k]

    E = []          # (from, to, edge)
    seen = set()
    for e in edges:
        k = (S(e["from"]), canon(e[act_key]), S(e["to"]))
        if k in seen:
            continue
        seen.add(k)
        E.append((k[0], k[2], e))
    n = len(sid)
    adj = [[] for _ in range(n)]
    for i, (u, v, e) in enumerate(E):
        adj[u].append(i)
    if init is None:
        tos = {v for (_, v, _) in E}
        cands = [u for u in range(n) if u not in tos and adj[u]]
        init_id = cands[0] if cands else E[0][0]
    else:
        init_id = S(init)
    rng = rng or random.Random(0)
    covered = [False] * len(E)
    unc = [len(a) for a in adj]      # uncovered out-degree
    ncov = 0

    def path_to_uncovered(u):
        pred = {u: None}
        q = deque([u])
        while q:
            x = q.popleft()
            if x != u and unc[x] > 0:
                p = []
                while pred[x] is not None:
                    x, i = pred[x]
                    p.append(i)
                return p[::-1]
            for i in adj[x]:
                v = E[i][1]
                if v not in pred:
                    pred[v] = (x, i)
                    q.append(v)
        return None

    walks = []
    while ncov < len(E):
        u = init_id
        w = []
        progressed = False
        while len(w) < maxlen:
            if unc[u] > 0:
                outs = [i for i in adj[u] if not covered[i]]
                i = rng.choice(outs)
                covered[i] = True
                unc[u] -= 1
                ncov += 1
                progressed = True
                w.append(i)
                u = E[i][1]
                continue
            p = path_to_uncovered(u)
            if p is None or len(w) + len(p) >= maxlen + 10:
                break
            w.extend(p)
            u = E[p[-1]][1]
        if not progressed:
            if unc[init_id] == 0 and path_to_uncovered(init_id) is None:
                break       # remaining edges unreachable from init
            if not w:
                break
        walks.append([E[i][2] for i in w])
    for _ in range(n_random):
        u = init_id
        w = []
        for _ in range(depth):
            if not adj[u]:
                break
            i = rng.choice(adj[u])
            w.append(E[i][2])
            u = E[i][1]
        if w:
            walks.append(w)
    return walks


def merge_prefix_walks(walks, act_key="o"):
    """Drop walks that are a strict prefix of another walk (their edges are covered)."""
    keys = [tuple(canon([e["from"], e[act_key]]) for e in w) for w in walks]
    full = set()
    order = sorted(range(len(walks)), key=lambda i: -len(keys[i]))
    keep = []
    for i in order:
        k = keys[i]
        if k in full:
            continue
        keep.append(walks[i])
        for j in range(1, len(k) + 1):
            full.add(k[:j])
    return keep


def read_ndjson(path):
    out = []
    with open(path) as fh:
        for line in fh:
            line = line.strip()
            if line:
                out.append(json.loads(line))
    return out


def split_traces(events):
    """Split a concatenated trace at Reset events -> list of (first_line_1based, events)."""
    res = []
    cur = None
    for i, e in enumerate(events):
        if e.get("ev") == "Reset":
            cur = [i + 1, []]
            res.append(cur)
        if cur is None:
            cur = [i + 1, []]
            res.append(cur)
        cur[1].append(e)
    return res


def main(run_fn, pid):
    import argparse
    ap = argparse.ArgumentParser()
    ap.add_argument("--tier", default="quick")
    ap.add_argument("--replay", default=None)
    a = ap.parse_args()
    tier = os.environ.get("VERIF_TIER") or a.tier
    if tier not in ("quick", "thorough"):
        tier = "quick"
    seed = int(os.environ.get("VERIF_SEED", "1") or "1")
    ctx = Ctx(pid, tier, seed)
    rc = 2
    try:
        run_fn(ctx, a)
        rc = ctx.finish()
    except Infra as ex:
        print("INFRA-ERROR property=%s: %s" % (pid, ex), flush=True)
        rc = 2
    except Exception:
        import traceback
        traceback.print_exc()
        print("INFRA-ERROR property=%s: driver exception" % pid, flush=True)
        rc = 2
    finally:
        if not os.environ.get("VERIF_KEEP"):
            ctx.cleanup()
        else:
            print("scratch kept:", ctx.scratch)
    sys.exit(rc)
