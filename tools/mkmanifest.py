#!/usr/bin/env python3
"""Assemble MANIFEST.json from checks/*.json (one file per claimed property) and properties.jsonl."""
import json, os, glob
V = os.path.dirname(os.path.dirname(os.path.abspath(__file__)))
props = [json.loads(l)["id"] for l in open(os.path.join(V, "properties.jsonl")) if l.strip()]
checks, claimed = [], set()
for f in sorted(glob.glob(os.path.join(V, "checks", "C*.json"))):
    c = json.load(open(f))
    pid = c["property_id"]
    claimed.add(pid)
    checks.append({
        "property_id": pid,
        "quick_cmd": "python3 tools/vcheck.py %s --tier quick" % pid,
        "thorough_cmd": "python3 tools/vcheck.py %s --tier thorough" % pid,
        "evidence_file": "evidence/%s.json" % pid,
        "replay_cmd_template": "python3 tools/vcheck.py %s --replay {path}" % pid,
        "engine": c.get("engine", "tla-trace"),
        "level_claimed": {"category": c.get("category", "model_checking"), "text": c["text"],
                          "design_ref": c.get("design_ref", "DESIGN.md section 6, " + pid)},
        "level_note": c["note"],
        "technique": c.get("technique", "explicit TLA+ specification checked by TLC (exhaustive bounded model) + "
                                        "TLC-generated behaviours replayed into the real code + TLC trace validation of the recorded executions"),
    })
na_reasons = {}
p = os.path.join(V, "checks", "not_applicable.json")
if os.path.exists(p):
    na_reasons = json.load(open(p))
na = [{"property_id": i, "reason": na_reasons.get(i, "not yet bound: the TLA+ module and conformance harness for this property have not been built in the time used so far (technique applies; see DESIGN.md section 6)")}
      for i in props if i not in claimed]
hooks = json.load(open(os.path.join(V, "checks", "hooks.json")))
m = {
    "version": 1,
    "setup_cmd": "python3 tools/setup.py",
    "hooks": hooks,
    "engines": [
        {"name": "tla-trace", "path": "tools/vcheck.py", "serves_properties": sorted(claimed),
         "kind_free_text": "TLC exhaustive check of spec/<Module>/MC_*.cfg; TLC edge/behaviour emission -> Go in-package harness (go test -overlay, harness/inpkg) on /repo's working tree -> NDJSON trace -> TLC trace specification spec/<Module>/Trace_*.tla (full conformance pass, then property-monitor pass)"},
    ],
    "checks": checks,
    "not_applicable": na,
    "notes": "Every check rebuilds the harness from /repo's current working tree (go test -overlay adds files, never replaces). Exit 0 held / 1 VIOLATION / 2 infrastructure problem. VERIF_SEED and VERIF_TIER are honoured.",
}
json.dump(m, open(os.path.join(V, "MANIFEST.json"), "w"), indent=1)
print("claimed:", len(checks), "not_applicable:", len(na))
