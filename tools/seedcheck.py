#!/usr/bin/env python3
"""Confirm a seeded change and run the property's check against it.

usage: seedcheck.py <property id> <n> <demo-dest-relative-to-repo> <go test package> <go test -run regex> [--tier quick]
  reads  /tmp/seed/<id>/out/change<n>.diff and demo<n>_test.go
  1. scratch copy A of /repo (unchanged) + demo  -> demo must PASS
  2. scratch copy B of /repo + change            -> existing tests of common crypto storage kernel p2p must PASS
  3. copy B + demo                               -> demo must FAIL
  4. VERIF_REPO=B tools/vcheck.py <id>           -> expected exit 1 (VIOLATION)
  writes /verif/seeded/<id>-<n>/{patch.diff, demo file, meta.json}; removes the scratch copies.
"""
import json, os, shutil, subprocess, sys, time
V = os.path.dirname(os.path.dirname(os.path.abspath(__file__)))
ROOT = os.environ.get("SEED_ROOT", "/tmp/seed")      # where the adversary sub-agents delivered
OFFSET = int(os.environ.get("SEED_OFFSET", "0"))     # second wave: change<n> is kept as <id>-<n+OFFSET>
ENV = dict(os.environ, GOFLAGS="-mod=mod", GOPROXY="off", GOSUMDB="off", GOTOOLCHAIN="local")

def sh(cmd, cwd=None, env=None, timeout=3600):
    p = subprocess.run(cmd, shell=True, cwd=cwd, env=env or ENV, stdout=subprocess.PIPE, stderr=subprocess.STDOUT, text=True, timeout=timeout)
    return p.returncode, p.stdout

def infer(pid, n):
    """package directory, destination file and -run regex from the demonstration file itself"""
    import re
    demo = "%s/%s/out/demo%s_test.go" % (ROOT, pid, n)
    src = open(demo).read()
    pkg = re.search(r"^package (\w+)", src, re.M).group(1)
    pkg = pkg[:-5] if pkg.endswith("_test") else pkg
    tests = re.findall(r"^func (Test\w+)\(", src, re.M)
    return "%s/zz_seed_%s_%d_test.go" % (pkg, pid.lower(), int(n) + OFFSET), pkg, "^(%s)$" % "|".join(tests)

def affected(diff):
    import re
    pk = set(re.findall(r"^\+\+\+ b/(\w+)/", open(diff).read(), re.M))
    out = set()
    for p in pk:
        out |= {"crypto": {"crypto", "common", "storage", "kernel", "p2p"}, "common": {"common", "storage", "kernel", "p2p"},
                "storage": {"storage", "kernel"}, "p2p": {"p2p", "kernel"}, "kernel": {"kernel"},
                "config": {"config", "common", "storage", "kernel", "p2p"}}.get(p, {"common", "crypto", "storage", "kernel", "p2p"})
    return sorted(out)

def main():
    pid, n = sys.argv[1:3]
    if len(sys.argv) >= 6 and not sys.argv[3].startswith("--"):
        dest, pkg, run = sys.argv[3:6]
    else:
        dest, pkg, run = infer(pid, n)
    tier = "quick"
    checks = [pid]
    if "--checks" in sys.argv:
        checks = sys.argv[sys.argv.index("--checks") + 1].split(",")
    src = "%s/%s/out" % (ROOT, pid)
    diff = os.path.join(src, "change%s.diff" % n)
    demo = os.path.join(src, "demo%s_test.go" % n)
    A, B = "/tmp/seedA-%s-%s" % (pid, n), "/tmp/seedB-%s-%s" % (pid, n)
    meta = {"property": pid, "change": str(int(n) + OFFSET), "ran": []}
    try:
        for d in (A, B):
            shutil.rmtree(d, ignore_errors=True)
            sh("rsync -a --exclude .git /repo/ %s/" % d)
        rc, out = sh("patch -p1 < %s" % diff, cwd=B)
        meta["patch_applies"] = rc == 0
        if rc != 0:
            print("PATCH DOES NOT APPLY\n" + out); return 2
        rc, out = sh("go1.26 build ./... ", cwd=B)
        meta["builds"] = rc == 0
        if rc != 0:
            print("DOES NOT BUILD\n" + out[-2000:]); return 2
        pkgs = " ".join("./" + x for x in affected(diff))
        rc, out = sh("go1.26 test -count=1 -vet=off %s" % pkgs, cwd=B, timeout=3000)
        meta["existing_tests_pass"] = rc == 0
        meta["ran"].append("go1.26 test %s (packages touched by the change and their importers; with change): rc=%d" % (pkgs, rc))
        print("existing tests with change: rc=%d\n%s" % (rc, out[-600:]))
        if os.path.exists(demo):
            for d, label in ((A, "without"), (B, "with")):
                shutil.copy(demo, os.path.join(d, dest))
                rc, out = sh("go1.26 test -count=1 -vet=off -run '%s' ./%s" % (run, pkg), cwd=d, timeout=1800)
                meta["demo_%s_change_rc" % label] = rc
                meta["ran"].append("demo %s change: go1.26 test -run '%s' ./%s rc=%d" % (label, run, pkg, rc))
                print("demo %s change: rc=%d\n%s" % (label, rc, out[-500:]))
                os.remove(os.path.join(d, dest))
        res = {}
        for c in checks:
            t0 = time.time()
            rc, out = sh("python3 tools/vcheck.py %s --tier %s" % (c, tier), cwd=V, env=dict(os.environ, VERIF_REPO=B, VERIF_EVIDENCE_DIR="/dev/shm/seed_evidence"), timeout=7200)
            res[c] = rc
            tail = "\n".join([l for l in out.splitlines() if "VIOLATION" in l or "INFRA" in l or "done:" in l or "KNOWN" in l][-6:])
            meta["ran"].append("VERIF_REPO=<repo+change> python3 tools/vcheck.py %s --tier %s -> exit %d (%.0fs)" % (c, tier, rc, time.time() - t0))
            print("check %s on changed tree: exit %d\n%s" % (c, rc, tail[:1500]))
        meta["check_exit"] = res
        meta["detected"] = res.get(pid) == 1
        out_dir = os.path.join(V, "seeded", "%s-%d" % (pid, int(n) + OFFSET))
        os.makedirs(out_dir, exist_ok=True)
        shutil.copy(diff, os.path.join(out_dir, "patch.diff"))
        if os.path.exists(demo):
            shutil.copy(demo, os.path.join(out_dir, os.path.basename(dest)))
            meta["demo"] = {"place_at": dest, "run": "go1.26 test -count=1 -vet=off -run '%s' ./%s" % (run, pkg)}
        notes = os.path.join(src, "notes.md")
        if os.path.exists(notes):
            shutil.copy(notes, os.path.join(out_dir, "notes.md"))
        json.dump(meta, open(os.path.join(out_dir, "meta.json"), "w"), indent=1)
        print(json.dumps({k: v for k, v in meta.items() if k != "ran"}))
    finally:
        shutil.rmtree(A, ignore_errors=True); shutil.rmtree(B, ignore_errors=True)
        shutil.rmtree(os.path.join(V, "replays"), ignore_errors=True)

if __name__ == "__main__":
    sys.exit(main() or 0)
