#!/usr/bin/env python3
"""vcheck <property id> [--tier quick|thorough]   (VERIF_SEED, VERIF_TIER honoured)"""
import importlib, os, sys
sys.path.insert(0, os.path.dirname(os.path.abspath(__file__)))
sys.path.insert(0, os.path.join(os.path.dirname(os.path.abspath(__file__)), "props"))
import vlib

MODULES = {
    "C03": "locks", "C04": "locks",
}

if __name__ == "__main__":
    if len(sys.argv) < 2 or sys.argv[1] not in MODULES:
        print("usage: vcheck.py <%s> [--tier quick|thorough]" % "|".join(sorted(MODULES)))
        sys.exit(2)
    pid = sys.argv.pop(1)
    mod = importlib.import_module(MODULES[pid])
    fn = getattr(mod, "run_" + pid, None) or mod.run
    vlib.main(fn, pid)
