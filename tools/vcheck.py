#!/usr/bin/env python3
"""vcheck <property id> [--tier quick|thorough]   (VERIF_SEED, VERIF_TIER honoured)"""
import importlib, os, sys, glob
HERE = os.path.dirname(os.path.abspath(__file__))
sys.path.insert(0, HERE)
sys.path.insert(0, os.path.join(HERE, "props"))
import vlib


def discover():
    mods = {}
    for f in sorted(glob.glob(os.path.join(HERE, "props", "*.py"))):
        name = os.path.basename(f)[:-3]
        src = open(f).read()
        for line in src.splitlines():
            if line.startswith("PROPS"):
                for pid in eval(line.split("=", 1)[1]):
                    mods[pid] = name
                break
    return mods


if __name__ == "__main__":
    MODULES = discover()
    if len(sys.argv) < 2 or sys.argv[1] not in MODULES:
        print("usage: vcheck.py <%s> [--tier quick|thorough]" % "|".join(sorted(MODULES)))
        sys.exit(2)
    pid = sys.argv.pop(1)
    mod = importlib.import_module(MODULES[pid])
    fn = getattr(mod, "run_" + pid, None) or mod.run
    vlib.main(fn, pid)
