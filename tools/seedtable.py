#!/usr/bin/env python3
"""Markdown table of the confirmed seeded changes from /verif/seeded/*/meta.json."""
import glob, json, os, re
V = os.path.dirname(os.path.dirname(os.path.abspath(__file__)))
rows = []
for f in sorted(glob.glob(os.path.join(V, "seeded", "*", "meta.json"))):
    m = json.load(open(f))
    d = os.path.dirname(f)
    files = sorted(set(re.findall(r"^\+\+\+ b/(\S+)", open(os.path.join(d, "patch.diff")).read(), re.M)))
    rows.append("| %s-%s | %s | %s | %s | %s |" % (
        m["property"], m["change"], ", ".join(files),
        "pass" if m.get("existing_tests_pass") else "see notes",
        "fails with / passes without" if (m.get("demo_with_change_rc") and m.get("demo_without_change_rc") == 0) else "see notes",
        ", ".join("%s: exit %s" % (k, v) for k, v in sorted(m.get("check_exit", {}).items()))))
print("| Seed | Files changed | Repository tests with the change | Demonstration | Check result on the changed tree |")
print("|---|---|---|---|---|")
print("\n".join(rows))
