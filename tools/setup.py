#!/usr/bin/env python3
"""Offline setup: checks the toolchain, renders the overlay and warms the Go build cache by
compiling every in-package harness against /repo's current tree (nothing is fetched)."""
import os, subprocess, sys
sys.path.insert(0, os.path.dirname(os.path.abspath(__file__)))
import vlib

def main():
    for tool in (["java", "-version"], [vlib.GO, "version"]):
        subprocess.run(tool, check=True, stdout=subprocess.DEVNULL, stderr=subprocess.DEVNULL)
    if not os.path.exists("/opt/veriftools/tla/tla2tools.jar"):
        print("tla2tools.jar missing"); sys.exit(1)
    ov = vlib.write_overlay()
    e = vlib.goenv()
    rc = 0
    for pkg in vlib.PKGS:
        p = subprocess.run([vlib.GO, "test", "-tags", "verif", "-overlay", ov, "-vet=off", "-count=1", "-run", "^$", "./" + pkg],
                           cwd=vlib.REPO, env=e, stdout=subprocess.PIPE, stderr=subprocess.STDOUT, text=True)
        print(p.stdout.strip())
        if p.returncode != 0:
            print('WARNING: harness package %s does not build completely; affected checks will report exit 2' % pkg)
    os.makedirs(os.path.join(vlib.VERIF, "evidence"), exist_ok=True)
    sys.exit(0)

main()
