"""C15 — BadgerStore.WriteSnapshot is atomic and idempotent (spec/Finalize)."""
import json, os, random
from vlib import build_walks, read_ndjson, split_traces, Infra

PROPS = ["C15"]


def run(ctx, args):
    quick = ctx.tier == "quick"
    d = ctx.specdir("Finalize")
    ctx.tlc_mc(d, "MC_Finalize.tla", "MC_Finalize_wide.cfg", workers=12, timeout=2400)
    if not quick:
        ctx.tlc_mc(d, "MC_Finalize.tla", "MC_Finalize.cfg", workers=12, timeout=3000)
    ctx.exhaustive = True
    ws = ctx.tlc_sim(d, "MC_Finalize.tla", "Gen_Finalize.cfg", num=(250 if quick else 4000), depth=(7 if quick else 9))
    walks = [{"steps": [{"node": e["o"]["node"], "txs": e["o"]["txs"]} for e in w]} for w in ws]
    cases = os.path.join(ctx.scratch, "cases.json")
    with open(cases, "w") as fh:
        json.dump({"walks": walks}, fh)
    files = ctx.go_harness_sharded("storage", "^TestVerifFinalizeReplay$", 8, env={"VERIF_CASES": cases}, timeout=2400)
    events = []
    for f in files:
        events += read_ndjson(f)
    traces = split_traces(events)
    trace = os.path.join(ctx.scratch, "trace.ndjson")
    with open(trace, "w") as fh:
        for e in events:
            fh.write(json.dumps(e) + "\n")
    writes = [e for e in events if e["ev"] == "Write"]
    ctx.evaluations = len(writes)
    ctx.distinct = len({json.dumps([(e.get("node"), e.get("txs"), e.get("res")) for e in t[1]]) for t in traces})
    ctx.cov["failed_writes"] = sum(1 for e in writes if e["res"] != "ok")
    ctx.cov["writes_with_already_final_member"] = sum(1 for e in writes if e["res"] == "ok" and
                                                      len([x for x in e["delta"] if x[0] == "FIN"]) < len(e["txs"]))
    ctx.rule = ("seeded TLC simulation of spec/Finalize (batches of 1-3 templates: colliding one-time keys, deposits of a known "
                "and a new asset, withdrawal submission, pledge / second pledge / accept, a member without body; two nodes "
                "sharing transactions) replayed on a real BadgerStore with a full key-value dump before and after every "
                "WriteSnapshot; distinct = distinct recorded histories (node, batch, result)")
    ctx.samples = [[(e.get("node"), e.get("txs"), e.get("res"), e.get("delta")) for e in t[1] if e["ev"] == "Write"][:4] for t in traces[:2]]
    r = ctx.tlc_trace(d, "Trace_Finalize.tla", "Trace_Finalize_full.cfg", trace)
    if r["accepted"]:
        ctx.traces = len(traces)
        ctx.log("E2 full conformance: %d traces / %d lines accepted" % (len(traces), len(events)))
    else:
        ctx.log("E2 full conformance rejected at line %s; running the C15 monitor" % r["line"])
        ctx.mismatches.append({"line": r["line"], "event": (events[r["line"] - 1] if r["line"] and r["line"] <= len(events) else None)})
        r2 = ctx.tlc_trace(d, "Trace_Finalize.tla", "Trace_Finalize_C15.cfg", trace)
        if r2["accepted"]:
            ctx.traces = len(traces)
            ctx.notes.append("conformance mismatch not forbidden by C15")
        else:
            line = r2["line"] or 1
            bad = traces[-1]
            for first, evs in traces:
                if first <= line < first + len(evs):
                    bad = (first, evs)
            ctx.violation("WriteSnapshot on the real store is not all-or-nothing / idempotent at line %d: %s"
                          % (line, json.dumps(events[line - 1])[:700] if line <= len(events) else "?"),
                          {"trace": bad[1], "failing_index": line - bad[0]})
    ctx.assumptions += [
        "Badger transactions are atomic; effects are observed as the difference of complete key-value dumps of the snapshots database",
        "batches of up to 3 transactions (the 255 limit is not exercised); custodian-update effects are not part of the template universe",
    ]
