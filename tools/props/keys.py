"""C32 — one-time keys and addresses round-trip correctly (spec/Keys).

E3: for every hash function over an abstract group of prime order 3 and 5 and all keys: the derived
    private key opens the derived public key, viewing recovers the spend key; codec theorems.
E2: a seeded driver derives with the real functions (indexes 0, 127, 128, 2^32-1, 2^64-1, ...) and
    records both sides of the predicted equalities, print/parse round trips of address, key, hash,
    signature, CoSi signature, base58, and single-character mutations of printed addresses; TLC
    validates every event (spec/Keys/Trace_Keys.tla)."""
import json, os
from concurrent.futures import ThreadPoolExecutor

PROPS = ["C32"]
from vlib import read_ndjson, Infra
from amounts import validate_parallel


def run(ctx, args):
    quick = ctx.tier == "quick"
    os.environ.setdefault("JDK_JAVA_OPTIONS", "-XX:ParallelGCThreads=2 -XX:CICompilerCount=2")
    d = ctx.specdir("Keys")
    trace = os.path.join(ctx.scratch, "trace.ndjson")

    def mc(cfg, workers=4, **kw):
        return lambda: ctx.tlc_mc(d, "MC_Keys.tla", cfg, workers=workers, timeout=1500, **kw)

    e3 = [mc("MC_Keys_q5.cfg"), mc("MC_Keys_q3.cfg", workers=1),
          mc("MC_Keys_WitnessHexNotIdentical.cfg", workers=1, expect_violation="WitnessHexNotIdentical", count=False),
          mc("MC_Keys_WitnessNonTrivial.cfg", workers=1, expect_violation="WitnessNonTrivial", count=False)]
    with ThreadPoolExecutor(max_workers=5) as ex:
        futs = [ex.submit(f) for f in e3]
        ctx.go_harness("common", "^TestVerifKeys$", env={"VERIF_TRACE": trace, "VERIF_N": 300 if quick else 12000}, timeout=1500)
        events = read_ndjson(trace)
        ctx.log("recorded %d events" % len(events))
        acc = validate_parallel(ctx, d, "Trace_Keys.tla", "Trace_Keys_full.cfg", "Trace_Keys_monitor.cfg",
                                events, "C32 keys/codecs", workers=3 if quick else 10, xss=False)
        for f in futs:
            f.result()
    ctx.exhaustive = True
    ctx.evaluations = len(events)
    ctx.traces = acc
    ctx.distinct = len({json.dumps(e, sort_keys=True) for e in events})
    by = {}
    for e in events:
        k = e["ev"] + ("/" + e["kind"] if "kind" in e else "") + ":" + e["res"]
        by[k] = by.get(k, 0) + 1
    ctx.cov["events_by_kind_outcome"] = by
    ctx.rule = ("per seeded address: one derivation (index from the boundary list or random 64-bit), address print/parse "
                "(direct and JSON), 4 single-character mutations, key/hash/signature/CoSi/base58 round trips, one junk "
                "text offered to the hash parser; distinct = distinct recorded events")
    ctx.samples = [e for e in events if e["ev"] in ("derive", "addrmut")][:3]
    ctx.assumptions += [
        "the model proves the algebra for an abstract prime-order group and an arbitrary hash; the real curve arithmetic is observed on seeded samples only",
        "seeds, masks, indexes and mutations are samples, not all values",
    ]
