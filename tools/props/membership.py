"""C10 / C29 / C11 - membership and consensus views (spec/Membership/Membership.tla).

C10  TLC proves the quorum-intersection theorem on category counts (every tuple up to 50 members),
     checks that the views of Membership.tla refine the count-level formulas on concretized
     histories, and emits those histories as cases; the Go harness materializes each case in a real
     BadgerStore under a real kernel.Node and records the real ConsensusThreshold(ts, true) and
     ConsensusKeys(round, ts); TLC evaluates the inequality on the real numbers
     (spec/Membership/Trace_Membership.tla).
"""
import json, os, random, re

PROPS = ["C10", "C29", "C11"]
from vlib import read_ndjson, split_traces, Infra

HARNESS = "^TestVerifMembership$"


# --------------------------------------------------------------------------- shared helpers
def patch_known(d, cfg, ids):
    """Known-finding ids are a constant of the trace specification: write them into the scratch
    copy of the cfg (known_findings.json itself is never touched)."""
    p = os.path.join(d, cfg)
    s = open(p).read()
    s = s.replace("KnownIds = {}", "KnownIds = {%s}" % ", ".join('"%s"' % i for i in ids))
    with open(p, "w") as fh:
        fh.write(s)


def known_hits(out):
    """ids (and lines) of the KnownFinding_* predicates TLC matched."""
    hits = {}
    for m in re.finditer(r'<<"KNOWN-FINDING", "([^"]+)", "line", (\d+)', out):
        hits.setdefault(m.group(1), set()).add(int(m.group(2)))
    return hits


def validate(ctx, d, mode, trace, events, what):
    """Two passes (guide section 4): full conformance, then the property monitor."""
    known = ctx.known()
    ids = [k["id"] for k in known]
    patch_known(d, "Trace_Membership_full.cfg", ids)
    patch_known(d, "Trace_Membership_%s.cfg" % mode, ids)
    traces = split_traces(events)
    r = ctx.tlc_trace(d, "Trace_Membership.tla", "Trace_Membership_full.cfg", trace, timeout=1500, dfs=False)
    out = r["out"]
    if r["accepted"]:
        ctx.traces = len(traces)
        ctx.log("E2 full conformance: %d worlds / %d lines accepted" % (len(traces), len(events)))
    else:
        ctx.log("E2 full conformance rejected at line %s; running the %s monitor" % (r["line"], mode))
        ln = r["line"]
        ctx.mismatches.append({"line": ln, "event": strip(events[ln - 1]) if ln and ln <= len(events) else None})
        r2 = ctx.tlc_trace(d, "Trace_Membership.tla", "Trace_Membership_%s.cfg" % mode, trace, timeout=1500, dfs=False)
        out = r2["out"]
        if r2["accepted"]:
            ctx.traces = len(traces)
            ctx.notes.append("conformance mismatch not forbidden by this property (see conformance_mismatches)")
        else:
            line = r2["line"] or 1
            bad = traces[-1]
            for first, evs in traces:
                if first <= line < first + len(evs):
                    bad = (first, evs)
            ctx.traces = sum(1 for first, evs in traces if first + len(evs) <= line)
            ev = events[line - 1] if line <= len(events) else {}
            ctx.violation("%s (line %d of the recorded trace, event %s)" % (what, line, json.dumps(strip(ev))),
                          {"world_trace": bad[1], "failing_index": line - bad[0], "failing_event": ev,
                           "how": "VERIF_SEED=%d python3 tools/vcheck.py %s --tier %s" % (ctx.seed, ctx.pid, ctx.tier)})
    hits = known_hits(out)
    for k in known:
        if k["id"] in hits:
            ctx.known_reached.append("%s %s (reached %d times)" % (k["id"], k["text"], len(hits[k["id"]])))
    return hits


def strip(ev):
    e = dict(ev)
    e.pop("hist", None)
    return e


# --------------------------------------------------------------------------- C10
def world_of_case(i, case, prefix):
    steps = [{"op": "append", "node": a["node"], "ts": a["ts"], "st": a["st"]} for a in case["appends"]]
    qs = sorted(case["queries"], key=lambda q: (q["t"], q["kind"]))
    for q in qs:
        st = {"op": "c10", "t": q["t"], "kind": q["kind"]}
        if q["node"]:
            st["node"] = q["node"]
        steps.append(st)
    return {"id": "%s%d" % (prefix, i), "g": case["g"], "x": case["x"], "nodes": 1, "steps": steps}


def run_C10(ctx, args):
    quick = ctx.tier == "quick"
    rng = random.Random(ctx.seed)
    d = ctx.specdir("Membership")
    # ---- E3 count level: every tuple of category counts with at most 50 members
    r = ctx.tlc_mc(d, "MC_Membership_C10.tla",
                   "MC_Membership_C10_count.cfg" if quick else "MC_Membership_C10_count_thorough.cfg",
                   workers=8, timeout=1200)
    configs = sum(int(x) for x in re.findall(r'<<"CONFIGS", (\d+)>>', r["out"]))
    ctx.cov["count_level_configurations"] = configs
    # ---- unbounded arithmetic core (TLAPS): for EVERY base and key-set size k <= base two signer sets
    # meeting ThresholdOf(base) share more than k/3 keys; with k = base + 1 (known finding C10-1) they need not
    import subprocess, shutil
    if shutil.which("tlapm"):
        pr = subprocess.run(["timeout", "300", "tlapm", "--threads", "8", "Quorum.tla"], cwd=d, stdout=subprocess.PIPE,
                            stderr=subprocess.STDOUT, text=True)
        m = re.search(r"All (\d+) obligations proved", pr.stdout)
        ctx.checker_cmds.append("tlapm --threads 8 Quorum.tla")
        if m:
            ctx.cov["tlaps_obligations_proved"] = int(m.group(1))
            ctx.log("TLAPS: Quorum.tla, %s obligations proved (unbounded quorum intersection of the threshold formula)" % m.group(1))
        else:
            from vlib import Infra
            raise Infra("tlapm did not prove Quorum.tla:\n" + pr.stdout[-1500:])
    else:
        ctx.notes.append("tlapm not found: the unbounded arithmetic lemma (spec/Membership/Quorum.tla) was not re-proved")
    ctx.log("E3 count level: %d category configurations (all totals <= 50)" % configs)
    # ---- E3 hist level: views of Membership.tla on concretized histories refine the counts.
    # Families: the boundary family of the tier plus a large family whose genesis sizes are drawn by
    # the seed (quick: one size in 11..50; thorough: 10 sizes and 47..50)
    fam = "hist" if quick else "hist_thorough"
    if quick:
        sizes = [rng.randint(11, 50)]
        ys = "{0}"
    else:
        sizes = sorted(set(rng.sample(range(11, 47), 10)) | {47, 48, 49, 50})
        ys = "{0, 1}"
    for f in ("MC_Membership_C10_%s.cfg" % fam, "Gen_Membership_C10_%s.cfg" % fam):
        pth = os.path.join(d, f)
        t = open(pth).read()
        t = re.sub(r"G0s = \{[^}]*\}", "G0s = {%s}" % ", ".join(map(str, sizes)), t)
        t = re.sub(r"Ys = \{[^}]*\}", "Ys = " + ys, t)
        with open(pth, "w") as fh:
            fh.write(t)
    ctx.tlc_mc(d, "MC_Membership_C10.tla", "MC_Membership_C10_%s.cfg" % fam, workers=8, timeout=1500)
    if not quick:
        for w in ("NoDefectWitness", "NoRemovingWitness"):
            ctx.tlc_mc(d, "MC_Membership_C10.tla", "MC_Membership_C10_wit_%s.cfg" % w, workers=4,
                       timeout=600, expect_violation=w, count=False)
    ctx.exhaustive = True
    # ---- E1: the concretized cases -> worlds
    cases = ctx.tlc_edges(d, "MC_Membership_C10.tla", "Gen_Membership_C10_%s.cfg" % fam, tag="CASE ", timeout=1500)
    cases.sort(key=lambda c: json.dumps(c["cfg"], sort_keys=True))
    large = [c for c in cases if c["g"] in sizes and c["cfg"]["m"] == 3]
    ctx.cov["large_family_genesis_sizes"] = sizes
    worlds = [world_of_case(i, c, "w") for i, c in enumerate(cases)]
    cpath = os.path.join(ctx.scratch, "cases.json")
    with open(cpath, "w") as fh:
        json.dump({"worlds": worlds}, fh)
    trace = os.path.join(ctx.scratch, "trace.ndjson")
    ctx.log("E1: %d worlds (%d boundary family, %d large), %d queries"
            % (len(worlds), len(cases) - len(large), len(large), sum(1 for w in worlds for s in w["steps"] if s["op"] == "c10")))
    # mainnet legacy fallback of verifyFinalization (store-less fixture): membership sizes at which the
    # threshold differs between n and n-1 members
    legacy = os.path.join(ctx.scratch, "legacy.ndjson")
    lsizes = [8, 9, 11] if quick else sorted(set([8, 9, 11, 12, 14, 15, 17, 18, 49, 50] + rng.sample(range(19, 49), 6)))
    ctx.go_harness("kernel", "^TestVerifMembership(Legacy)?$",
                   env={"VERIF_CASES": cpath, "VERIF_TRACE": trace, "VERIF_TRACE_LEGACY": legacy,
                        "VERIF_LEGACY_SIZES": ",".join(map(str, lsizes))}, timeout=1500)
    with open(trace, "a") as fh:
        fh.write(open(legacy).read())
    events = read_ndjson(trace)
    ctx.cov["legacy_fallback_certificates"] = sum(1 for e in events if e["ev"] == "Legacy")
    qs = [e for e in events if e["ev"] == "C10"]
    ctx.evaluations = len(qs)
    # distinct non-trivial = distinct (kind, threshold, key-set size, number of listed records) observed
    # on the real code with a real threshold (thr < 1000) - measured from the trace
    sizes = {}
    cur = 0
    for e in events:
        if e["ev"] in ("Reset", "Append"):
            cur = len(e["hist"])
        elif e["ev"] == "C10" and e["thr"] < 1000:
            sizes[(e["kind"], e["thr"], len(e["keys"]), cur)] = 1
    ctx.distinct = len(sizes)
    ctx.rule = ("each TLC-emitted concretized configuration (boundary family exhaustively, large family seeded) is "
                "materialized in a real BadgerStore under a real kernel.Node and queried at every boundary tick; "
                "evaluations = real (ConsensusThreshold, ConsensusKeys) observations; distinct = distinct (chain kind, "
                "real threshold, real key count, history length) with a real threshold below 1000")
    ctx.samples = [strip(e) for e in qs[:2] + qs[-2:]]
    validate(ctx, d, "C10", trace, events,
             "real ConsensusThreshold/ConsensusKeys break the quorum-intersection inequality of C10")
    ctx.assumptions += [
        "time is sampled on a 10 s grid (every threshold of the code is a multiple of 10 s); sub-tick offsets are not explored",
        "store-backed worlds use a non-mainnet network id (predictive removal signer set always active); the mainnet legacy fallback of verifyFinalization is exercised separately on a store-less Node assembled from a membership list (mainnet id, timestamps before the signer-set fork, one removal inside the window)",
        "membership records are written through storage (WriteTransaction+WriteSnapshot), which admits histories the kernel's own validation would refuse (spacing below 12 h); they over-approximate the reachable ones",
        "count-level theorem is exhaustive up to 50 members; on the real code configurations are the emitted families (boundary exhaustively, sizes up to 50 sampled by seed)",
    ]


# --------------------------------------------------------------------------- C29
    if ctx.tier == "thorough":
        # network-level consequence of the threshold (spec/Kernel/CosiSafety.tla)
        import cosisafety
        cosisafety.run_design(ctx)

def world_of_case29(i, case, seed):
    steps = [{"op": "append", "node": a["node"], "ts": a["ts"], "st": a["st"]} for a in case["appends"]]
    for t in sorted(case["elect"]):
        steps.append({"op": "elect", "t": t})
    for t in sorted(case["hours"]):
        steps.append({"op": "hours", "t": t})
    for t in sorted(case["valid"]):
        steps.append({"op": "valid", "t": t})
    # the code counts hours from the genesis epoch: two of three worlds get an epoch that is not a UTC
    # midnight (+05:30:00, +13:17:03), so that epoch hours and UTC hours differ
    return {"id": "e%d" % i, "g": case["g"], "x": case["x"], "nodes": 2, "steps": steps,
            "epochoff": [0, 19800, 47823][(i + seed) % 3]}


def run_C29(ctx, args):
    quick = ctx.tier == "quick"
    rng = random.Random(ctx.seed)
    d = ctx.specdir("Membership")
    # ---- E3 index level: n in 7..50, all elected operations, days 0..1500, hours
    ctx.tlc_mc(d, "MC_Membership_C29.tla", "MC_Membership_C29.cfg" if quick else "MC_Membership_C29_thorough.cfg",
               workers=8, timeout=1500)
    ctx.cov["index_level_evaluations"] = 44 * 5 * 1501 * (3 if quick else 24)
    # ---- E3 + E1 hist level; sizes and days drawn by the seed
    if quick:
        sizes = [7, 8, rng.randint(9, 50)]
        days = sorted(set([5, 6, 7, 8] + rng.sample(range(9, 1500), 4)))
    else:
        sizes = sorted(set([7, 8, 9, 10, 49, 50] + rng.sample(range(11, 49), 8)))
        days = sorted(set(list(range(5, 30)) + rng.sample(range(30, 1500), 25)))
    for f in ["MC_Membership_C29h.cfg", "Gen_Membership_C29h.cfg"] + \
             ["MC_Membership_C29h_wit_%s.cfg" % w for w in ("NoRemovalPossible", "NoPledgeValid", "NoPeriodValid")]:
        pth = os.path.join(d, f)
        t = open(pth).read()
        t = re.sub(r"G0s = \{[^}]*\}", "G0s = {%s}" % ", ".join(map(str, sizes)), t)
        t = re.sub(r"Days = \{[^}]*\}", "Days = {%s}" % ", ".join(map(str, days)), t)
        with open(pth, "w") as fh:
            fh.write(t)
    ctx.tlc_mc(d, "MC_Membership_C29h.tla", "MC_Membership_C29h.cfg", workers=8, timeout=1500)
    if not quick:
        for w in ("NoRemovalPossible", "NoPledgeValid", "NoPeriodValid"):
            ctx.tlc_mc(d, "MC_Membership_C29h.tla", "MC_Membership_C29h_wit_%s.cfg" % w, workers=4,
                       timeout=600, expect_violation=w, count=False)
    ctx.exhaustive = True
    cases = ctx.tlc_edges(d, "MC_Membership_C29h.tla", "Gen_Membership_C29h.cfg", tag="CASE ", timeout=1500)
    cases.sort(key=lambda c: json.dumps(c["cfg"], sort_keys=True))
    worlds = [world_of_case29(i, c, ctx.seed) for i, c in enumerate(cases)]
    cpath = os.path.join(ctx.scratch, "cases.json")
    with open(cpath, "w") as fh:
        json.dump({"worlds": worlds}, fh)
    trace = os.path.join(ctx.scratch, "trace.ndjson")
    ctx.log("E1: %d worlds (genesis sizes %s, days %s), two Node objects each" % (len(worlds), sizes, days))
    ctx.go_harness("kernel", HARNESS, env={"VERIF_CASES": cpath, "VERIF_TRACE": trace}, timeout=1500)
    events = read_ndjson(trace)
    el = [e for e in events if e["ev"] == "Elect"]
    va = [e for e in events if e["ev"] == "Valid"]
    ctx.evaluations = sum(len(e["res"]) * 6 + len(e["rm"]) + 1 for e in el) + 4 * len(va) + \
        2 * sum(1 for e in events if e["ev"] == "Hours")
    # distinct non-trivial = distinct (accepted count, elected positions as answered) + distinct validator outcomes per hour
    dist = {(e["n"], tuple(e["elect"][0])) for e in el if e["res"][0] == "ok"}
    dist |= {("valid", (e["t"] // 360) % 24, e["pledge"], e["remove"], e["cancel"], e["accept"]) for e in va}
    ctx.distinct = len(dist)
    ctx.rule = ("TLC-emitted histories (genesis sizes and days drawn by the seed) are materialized on two independently "
                "constructed kernel.Node objects; evaluations = real electSnapshotNode / checkRemovePossibility / "
                "hour-window / validate*Snapshot calls; distinct = distinct (accepted count, elected nodes) answers plus "
                "distinct (hour, validator outcomes) tuples, measured from the trace")
    ctx.samples = [strip(e) for e in el[:2] + va[:2]]
    ctx.cov["genesis_sizes"] = sizes
    ctx.cov["days"] = days
    validate(ctx, d, "C29", trace, events,
             "real election / removal candidate / operation windows contradict C29")
    ctx.assumptions += [
        "time is sampled on a 10 s grid; hour windows are probed at the first and last tick of every hour",
        "index arithmetic is exhaustive for n in 7..50, 5 operations, days 0..1500; on the real code sizes and days are the emitted family (seeded)",
        "validators are called with well-formed operations of the elected proposer (a fresh pledge signer, the canonical removal transaction); malformed operations are C05/C27 territory",
        "determinism is observed on two Node objects built independently (own store, own signer) from the same ledger records",
    ]


# --------------------------------------------------------------------------- C11
def ticks_of(state, ns):
    ts = {r[1] for r in state["h"]} | set(state["c"])
    out = {t for x in ts for t in (x - 1, x, x + 1) if t >= 1}
    if not ns:
        out |= {x + 4321 for x in ts if x > 0}
    return sorted(out)


def world_of_walk(i, walk, rng, ns):
    steps = []
    ncust = 0
    cold_at = rng.randrange(len(walk))
    for j, e in enumerate(walk):
        o = e["o"]
        if o["op"] == "append":
            steps.append({"op": "append", "node": o["node"], "ts": o["ts"], "st": o["st"]})
        else:
            ncust += 1
            steps.append({"op": "cust", "ts": o["ts"], "order": ncust})
        # ask for every boundary tick of the ledger so far, in a seeded order; once per walk after a restart
        qs = ticks_of(e["to"], ns)
        rng.shuffle(qs)
        cold = (j == cold_at)
        for n, t in enumerate(qs):
            steps.append({"op": "views", "t": t, "cold": cold and n == 0})
    w = {"id": "v%d" % i, "g": 7, "x": 2, "nodes": 1, "steps": steps}
    if ns:
        # one abstract tick = 1 ns: records at "adjacent" ticks are adjacent nanoseconds and the questions
        # hit exactly t-1, t, t+1 ns. All ages stay <= 3 ticks, below every threshold of the code in either
        # unit, and all timestamps stay in hour 0 of day 0, so the specification's answers are the same.
        w["tickns"] = 1
    return w


def run_C11(ctx, args):
    from vlib import build_walks
    quick = ctx.tier == "quick"
    rng = random.Random(ctx.seed)
    d = ctx.specdir("Membership")
    sfx = "" if quick else "_thorough"
    ctx.tlc_mc(d, "MC_Membership_C11.tla", "MC_Membership_C11%s.cfg" % sfx, workers=8, timeout=1500)
    if not quick:
        for w in ("WitnessEqualTs", "WitnessChange"):
            ctx.tlc_mc(d, "MC_Membership_C11.tla", "MC_Membership_C11_wit_%s.cfg" % w, workers=4,
                       timeout=600, expect_violation=w, count=False)
    ctx.exhaustive = True
    edges = ctx.tlc_edges(d, "MC_Membership_C11.tla", "Gen_Membership_C11%s.cfg" % sfx, timeout=1500)
    walks = build_walks(edges, rng=rng, n_random=0, depth=8, maxlen=8)
    total = len(walks)
    limit = 36 if quick else 400
    if len(walks) > limit:
        walks = rng.sample(walks, limit)
    # every other walk is replayed with nanosecond ticks
    worlds = [world_of_walk(i, w, rng, i % 2 == 1) for i, w in enumerate(walks)]
    ctx.cov["edges"] = len(edges)
    ctx.cov["cover_walks_total"] = total
    ctx.cov["walks_replayed"] = len(walks)
    cpath = os.path.join(ctx.scratch, "cases.json")
    with open(cpath, "w") as fh:
        json.dump({"worlds": worlds}, fh)
    trace = os.path.join(ctx.scratch, "trace.ndjson")
    ctx.log("E1: %d of %d edge-cover walks (%d edges), %d view queries"
            % (len(walks), total, len(edges), sum(1 for w in worlds for s in w["steps"] if s["op"] == "views")))
    ctx.go_harness("kernel", HARNESS, env={"VERIF_CASES": cpath, "VERIF_TRACE": trace}, timeout=1500)
    events = read_ndjson(trace)
    vs = [e for e in events if e["ev"] == "Views"]
    ctx.evaluations = len(vs)
    # distinct non-trivial = distinct (ledger so far, t) pairs that were asked again after a later append /
    # restart (a repeated question is what the property constrains) - measured from the trace
    seen, rep = set(), set()
    hist = None
    wid = 0
    for e in events:
        if e["ev"] == "Reset":
            wid += 1
            seen = set()
        if e["ev"] == "Views":
            k = (wid, e["t"])
            if k in seen:
                rep.add(k)
            seen.add(k)
    ctx.distinct = len(rep)
    ctx.rule = ("edge-cover walks of the TLC state graph of MC_Membership_C11 (appends with equal/adjacent timestamps, "
                "custodian updates) replayed on a real store + kernel.Node; after every append every boundary tick is "
                "asked again in a seeded order, once per walk after a real restart (cold caches); evaluations = view "
                "queries; distinct = (world, timestamp) pairs asked more than once")
    ctx.samples = [strip(e) for e in vs[:2]]
    validate(ctx, d, "C11", trace, events,
             "a view for an earlier timestamp changed after a later record was appended / between warm and cold answers")
    ctx.assumptions += [
        "time: half of the walks on a 10 s grid, half with 1 ns ticks (equal and adjacent-nanosecond timestamps); appended records carry non-decreasing timestamps",
        "ConsensusKeys is observed on a chain with round state; the pledging chain's round-0 key set depends on the chain having no rounds yet, which is ledger state written by the accept itself (see report)",
        "cold = the Node and BadgerStore objects are dropped and rebuilt by the real SetupNode on the same directory",
        "custodian updates are written with genesis-typed inputs (storage does not look at the inputs); their extras are fully signed",
    ]


def run(ctx, args):
    raise Infra("use run_<id>")
