"""C09 — finalization certificates (spec/Membership/Cert.tla on top of Membership.tla).

E3: TLC enumerates a table of certificate variants (mask: exact / minus one / plus one / top /
    bit = n / bit 63 / all / empty; signature: good / wrong message / swapped, dropped, extra
    signer / tampered R, S / old version) shaped against the historical view of every stage of a
    membership history (pledge, accept x3, removal inside a removal window) at boundary
    timestamps, verified at the same and at later stages; two-step cases submit one signing act's
    hash and signature bytes under the genuine mask and under a mask with one signer bit swapped
    (both orders, same node); and a memo model (repeated queries, genuine and altered masks, while
    the history advances; witnesses show that every component of the memo key is needed).
E1: every table case is executed on a real kernel.Node (SetupNode over a real BadgerStore,
    generated genesis with known keys, real CoSi signatures): verifyFinalization as is, again
    (memo hit) and with an empty memo.
E2: the recorded answers (plus seeded random histories / timestamps / masks / signer subsets /
    forgeries / resubmissions) are validated by TLC against Trace_Cert (full, then monitor)."""
import json, os, random
from concurrent.futures import ThreadPoolExecutor

PROPS = ["C09"]
from vlib import read_ndjson, split_traces, Infra

MASKVS = ["exact", "exact", "minus", "plus", "top", "oob", "bit63", "all", "empty", "rand", "rand", "rand"]
SIGVS = ["good", "good", "good", "good", "wrongmsg", "swap", "drop", "extra", "tamperR", "tamperS", "oldver"]


def role(r):
    return "%s%d" % (r["r"], r["k"])


def scenario_worlds(cases):
    """One world per query timestamp: the scenario's records arrive stage by stage, every case is
    verified at its stage qs; a case shaped at an earlier stage keeps its sid (same snapshot)."""
    arr = {}
    for c in cases:
        if c["arr"]:
            arr[c["qs"]] = c["arr"][0]
    last = max([0] + list(arr))
    by_t = {}
    for c in cases:
        by_t.setdefault(c["t"], []).append(c)
    worlds = []
    for t in sorted(by_t):
        steps = []
        for qs in range(last + 1):
            if qs in arr:
                a = arr[qs]
                steps.append({"op": "append", "node": role(a["node"]), "st": a["st"], "ts": a["ts"]})
            for c in sorted((x for x in by_t[t] if x["qs"] == qs), key=lambda x: (x["cs"], x["kind"], x["mv"], x["sv"])):
                sid = "%d/%d/%s/%s/%s/%s" % (c["cs"], c["t"], role(c["chain"]), c["kind"], c["mv"], c["sv"])
                q = {"op": "query", "sid": sid, "t": c["t"], "chain": role(c["chain"]),
                     "round": 0 if c["kind"] == "pledging-round0" else 1,
                     "ver": c["ver"], "msg": c["msg"], "tamper": c["tamper"],
                     "mask": [i for i, b in enumerate(c["mask"]) if b],
                     "by": [role(c["roles"][i]) for i, b in enumerate(c["by"]) if b],
                     "tag": "table cs=%d qs=%d %s/%s expect=%s" % (c["cs"], c["qs"], c["mv"], c["sv"], c["final"])}
                if c["av"] == "none":
                    steps.append(q)
                    continue
                # two-step case on one node: its own signing act, submitted under the genuine mask and
                # under the altered mask (same hash, same signature bytes), in the order the case names
                q["sid"] = sid + "/" + c["av"]
                alt = dict(q, altmask=[i for i, b in enumerate(c["altmask"]) if b], tag=q["tag"] + " altered-mask " + c["av"])
                q["tag"] += " genuine-mask " + c["av"]
                steps += [q, alt] if c["av"] == "after" else [alt, q]
        worlds.append({"id": "scen-t%d" % t, "g": 7, "x": 3, "steps": steps})
    return worlds


def random_world(rng, idx):
    G = 7 + rng.choice([0, 0, 1, 2])
    X = rng.randint(1, 4)
    accepted = ["g%d" % (i + 1) for i in range(G)]
    unused = ["x%d" % (i + 1) for i in range(X)]
    pledging = None
    tick = 0
    rec_ticks = [0]
    steps, issued = [], []
    nq = 0

    def queries(k):
        nonlocal nq
        for _ in range(k):
            # resubmission of an existing snapshot (round 0 of a pledging chain only while it pledges)
            again = [q for q in issued if q["chain"][0] == "g" or q["chain"] == pledging]
            if again and rng.random() < 0.3:
                q = dict(rng.choice(again))
                if rng.random() < 0.4:
                    q["altv"] = "swap"       # same hash and signature bytes, one signer bit swapped
                else:
                    q.pop("altv", None)
                steps.append(q)
                continue
            day = tick // 8640
            cands = [-1, 0, 1, rng.randint(0, tick + 20000)]
            for b in rec_ticks[-3:]:
                cands += [b + d for d in (1, 3, 4, 9, 10, 4320, 4321)]
            for d in (day, day + 1, day + 2):
                cands += [d * 8640 + 4680 + e for e in (-1, 0, 1, 200)] + [d * 8640 + 7200 + e for e in (-1, 0, 1)]
            t = rng.choice(cands)
            if pledging and rng.random() < 0.5:
                chain, rnd = pledging, rng.choice([0, 0, 1])
            else:
                chain, rnd = "g%d" % rng.randint(1, G), rng.choice([0, 1, 1, 5])
            nq += 1
            q = {"op": "query", "sid": "r%d-%d" % (idx, nq), "t": t, "chain": chain, "round": rnd,
                 "maskv": rng.choice(MASKVS), "sigv": rng.choice(SIGVS), "tag": "random"}
            issued.append(q)
            steps.append(q)

    queries(rng.randint(2, 4))
    for _ in range(rng.randint(2, 7)):
        tick += rng.choice([1, 3, 4, 9, 100, 360, 4320, 4321, 4400, 8640, rng.randint(1, 20000)])
        if rng.random() < 0.3:
            tick = (tick // 8640) * 8640 + 4680 + rng.choice([0, 1, 3, 50, 2000])
        if tick <= rec_ticks[-1]:
            tick = rec_ticks[-1] + 1
        if pledging:
            if rng.random() < 0.7:
                steps.append({"op": "append", "node": pledging, "st": "ACCEPTED", "ts": tick})
                accepted.append(pledging)
            else:
                steps.append({"op": "append", "node": pledging, "st": "CANCELLED", "ts": tick})
            pledging = None
        elif unused and (rng.random() < 0.55 or not accepted):
            pledging = unused.pop(0)
            steps.append({"op": "append", "node": pledging, "st": "PLEDGING", "ts": tick})
        elif accepted:
            n = accepted.pop(rng.randrange(len(accepted)) if rng.random() < 0.5 else 0)
            steps.append({"op": "append", "node": n, "st": "REMOVED", "ts": tick})
        else:
            continue
        rec_ticks.append(tick)
        queries(rng.randint(3, 7))
    return {"id": "rand-%d" % idx, "g": G, "x": X, "steps": steps}


def replay(ctx, path):
    """Rebuild the world of a stored violation (same seed and world id => same keys), re-apply its
    records and re-submit its last query with the recorded concrete mask / signer set."""
    with open(path) as fh:
        doc = json.load(fh)
    ctx.seed = doc.get("seed", ctx.seed)
    evs = doc["replay"]["world_events_up_to_failure"]
    reset = evs[0]
    gen = sorted(reset["gen"])
    pool = reset["pool"]
    extra = [n for n in range(1, pool + 1) if n not in gen]
    rolename = {n: "g%d" % (i + 1) for i, n in enumerate(gen)}
    rolename.update({n: "x%d" % (i + 1) for i, n in enumerate(extra)})
    steps = []
    for e in evs[1:]:
        if e["ev"] == "Append":
            steps.append({"op": "append", "node": rolename[e["rec"]["n"]], "st": e["rec"]["st"], "ts": e["rec"]["ts"]})
        elif e["ev"] == "Query":
            q = {"op": "query", "sid": e["sid"], "t": e["t"], "chain": rolename[e["chain"]], "round": e["round"],
                 "ver": e["ver"], "msg": e["msg"], "tamper": e["tamper"], "mask": e["mask"],
                 "by": [rolename[n] for n in e["by"]], "tag": "replay"}
            if e.get("alt"):        # signature bytes made for sigmask, submitted under mask
                q["mask"], q["altmask"] = e["sigmask"], e["mask"]
            steps.append(q)
    world = {"id": reset["w"], "g": len(gen), "x": len(extra), "steps": steps}
    d = ctx.specdir("Membership")
    cpath = os.path.join(ctx.scratch, "cases.json")
    with open(cpath, "w") as fh:
        json.dump({"worlds": [world]}, fh)
    trace = os.path.join(ctx.scratch, "trace.ndjson")
    ctx.go_harness("kernel", "^TestVerifCert$", env={"VERIF_CASES": cpath, "VERIF_TRACE": trace})
    events = read_ndjson(trace)
    ctx.evaluations = 3 * sum(1 for e in events if e["ev"] == "Query")
    ctx.distinct = 1
    ctx.rule = "replay of one stored world and query"
    validate(ctx, d, trace, events, split_traces(events))


def run(ctx, args):
    if getattr(args, "replay", None):
        return replay(ctx, args.replay)
    quick = ctx.tier == "quick"
    rng = random.Random(ctx.seed)
    d = ctx.specdir("Membership")
    tab = "Gen_Cert_q.cfg" if quick else "Gen_Cert_t.cfg"
    e3 = [("MC_CertCache.tla", "MC_CertCache_q.cfg"), ("MC_CertCache.tla", "MC_CertCache_q2.cfg")]
    if not quick:
        e3.append(("MC_CertCache.tla", "MC_CertCache_t.cfg"))
    wit = [("MC_CertCache.tla", "MC_CertCache_wit_nokeys.cfg", "CacheAgrees"),
           ("MC_CertCache.tla", "MC_CertCache_wit_nothr.cfg", "CacheAgrees"),
           ("MC_CertCache.tla", "MC_CertCache_wit_nomask.cfg", "CacheAgrees"),
           ("MC_Cert.tla", "MC_Cert_wit_WitnessStaleFlip.cfg", "WitnessStaleFlip")]
    if not quick:
        wit += [("MC_CertCache.tla", "MC_CertCache_wit_nosig.cfg", "CacheAgrees")]
        wit += [("MC_Cert.tla", "MC_Cert_wit_%s.cfg" % w, w)
                for w in ("WitnessFinal", "WitnessStaleKeeps", "WitnessRemoving", "WitnessPledgeKey")]
    with ThreadPoolExecutor(max_workers=6) as ex:
        fe = ex.submit(ctx.tlc_edges, d, "MC_Cert.tla", tab, 1500, False, "CASE ")
        f3 = [ex.submit(ctx.tlc_mc, d, m, c, workers=2, timeout=900, count=False) for m, c in e3]
        fw = [ex.submit(ctx.tlc_mc, d, m, c, workers=2, timeout=900, expect_violation=n, count=False) for m, c, n in wit]
        cases = fe.result()
        r3 = [f.result() for f in f3]
        [f.result() for f in fw]
    # the emission run is itself the exhaustive check of the table (INVARIANT TTheorem on every case)
    ctx.states += len(cases) + sum(r["distinct"] for r in r3)
    ctx.transitions += len(cases) + sum(r["generated"] for r in r3)
    ctx.exhaustive = True
    ctx.cov["witnesses_reached"] = [c for _, c, _ in wit]
    ctx.cov["table_cases"] = len(cases)
    ctx.cov["table_expected_final"] = sum(1 for c in cases if c["final"])
    worlds = scenario_worlds(cases)
    nrand = 60 if quick else 1500
    worlds += [random_world(rng, i) for i in range(nrand)]
    cpath = os.path.join(ctx.scratch, "cases.json")
    with open(cpath, "w") as fh:
        json.dump({"worlds": worlds}, fh)
    trace = os.path.join(ctx.scratch, "trace.ndjson")
    ctx.go_harness("kernel", "^TestVerifCert$", env={"VERIF_CASES": cpath, "VERIF_TRACE": trace})
    events = read_ndjson(trace)
    traces = split_traces(events)
    qs = [e for e in events if e["ev"] == "Query"]
    ctx.evaluations = 3 * len(qs)
    ctx.distinct = len({json.dumps([e["t"], e["chain"], e["round"], e["ispledging"], e["mask"], e["by"], e["msg"],
                                    e["tamper"], e["ver"], e["keys"], e["thr"]]) for e in qs})
    ctx.cov["queries"] = len(qs)
    ctx.cov["answers"] = {k: sum(1 for e in qs if e["r3"] == k) for k in ("final", "no", "panic")}
    ctx.cov["resubmitted_after_change"] = sum(1 for e in qs if e["reused"])
    ctx.cov["altered_mask_submissions"] = sum(1 for e in qs if e.get("alt"))
    ctx.rule = ("every case of the TLC certificate table executed on a real kernel.Node (three verifyFinalization calls "
                "each: as is, memo hit, empty memo), plus seeded random worlds (history, timestamps, masks, signer subsets, "
                "forgeries, resubmissions); evaluations = verifyFinalization calls; distinct = distinct (timestamp, chain, "
                "round, mask, signer set, message, tampering, version, real key vector, real threshold) tuples")
    ctx.samples = [{k: e[k] for k in ("t", "chain", "round", "mask", "by", "msg", "tamper", "ver", "keys", "thr", "r1", "r2", "r3")}
                   for e in (qs[:2] + qs[len(qs) // 2:len(qs) // 2 + 2] + qs[-2:])]
    validate(ctx, d, trace, events, traces)
    ctx.assumptions += [
        "the network id is not the main network's, so the two legacy fallbacks of verifyFinalization (hard-coded snapshot "
        "hash, pre-fork signer set) are out of scope",
        "signatures are symbolic in the specification (signer set, message, tampering); unforgeability of Ed25519/CoSi and "
        "absence of key-sum collisions are assumed, every variant is concretized with real keys",
        "the historical key vector and threshold are the operators Keys / Threshold of spec/Membership/Membership.tla "
        "(checked against the code by C10/C11); membership records are written at the storage API",
        "round 0 of a chain without round state is exercised only while that node's last record is PLEDGING",
        "memo hits are forced with ristretto's Wait(); eviction / TTL of the memo are not modelled (an evicted entry is a miss)",
    ]
    if ctx.tier == "thorough":
        # system level: the CoSi exchange of a real multi-node network (spec/Net/Trace_Cosi.tla, monitor C09)
        import cosinet
        cosinet.run_cosinet(ctx)


def validate(ctx, d, trace, events, traces):
    r = ctx.tlc_trace(d, "Trace_Cert.tla", "Trace_Cert_full.cfg", trace)
    if r["accepted"]:
        ctx.traces = len(traces)
        ctx.log("E2 full conformance: %d worlds / %d lines accepted" % (len(traces), len(events)))
        return
    ctx.log("E2 full conformance rejected at line %s (invariant %s); running the property monitor" % (r["line"], r["invariant"]))
    ctx.mismatches.append({"line": r["line"], "invariant": r["invariant"],
                           "event": events[r["line"] - 1] if r["line"] and r["line"] <= len(events) else None})
    r2 = ctx.tlc_trace(d, "Trace_Cert.tla", "Trace_Cert_monitor.cfg", trace)
    if r2["accepted"]:
        ctx.traces = len(traces)
        ctx.notes.append("conformance mismatch not forbidden by this property (see conformance_mismatches)")
        return
    line = r2["line"] or 1
    bad = None
    for first, evs in traces:
        if first <= line < first + len(evs) + 1:
            bad = (first, evs)
    if bad is None:
        bad = traces[-1]
    ctx.traces = sum(1 for first, evs in traces if first + len(evs) <= line)
    failing = events[line - 1] if line <= len(events) else {}
    # the records, every earlier submission of the same snapshot (memo state), and the failing query
    upto = [e for e in bad[1][:line - bad[0] + 1] if e["ev"] != "Query" or e.get("sid") == failing.get("sid")]
    ctx.violation("verifyFinalization answered 'final' without a threshold certificate of the historical key set, or a "
                  "remembered answer differs from a fresh one (monitor: %s, line %d of the trace, event %s)"
                  % (r2["invariant"] or "QueryOK false", line, json.dumps(events[line - 1]) if line <= len(events) else "?"),
                  {"world_events_up_to_failure": upto, "failing_index": line - bad[0], "invariant": r2["invariant"]})
