"""C23 — proposal cache (spec/Cache): only queueing makes a cached transaction eligible.

E3  MC_Cache: every reachable state of the cache machine over 2 payloads x 2 signed envelopes,
    retrieval limits 0..3, queue length / number of queueings bounded; invariants + step property
    + non-vacuity witnesses.
E1  every edge of that state graph replayed on the real cache DB of a BadgerStore.
E2  the recorded trace (sequential replays and raced goroutine histories) validated by TLC
    against Trace_Cache (full conformance, then the C23 monitor)."""
import json, os, random

PROPS = ["C23"]
from vlib import build_walks, read_ndjson, split_traces, Infra

WITNESSES = ["ReachRequeue", "ReachDupSkip", "ReachRevive", "ReachLimited"]


def run(ctx, args):
    quick = ctx.tier == "quick"
    rng = random.Random(ctx.seed)
    d = ctx.specdir("Cache")
    # ---- E3 (exhaustive model, non-vacuity witnesses) and the E1 edge emission, run side by side
    q = "q3" if quick else "q4"
    from concurrent.futures import ThreadPoolExecutor
    with ThreadPoolExecutor(max_workers=6) as ex:
        f_mc = ex.submit(ctx.tlc_mc, d, "MC_Cache.tla", "MC_Cache_%s.cfg" % q, workers=(4 if quick else 8), timeout=1500)
        f_w = [ex.submit(ctx.tlc_mc, d, "MC_Cache.tla", "MC_Cache_%s.cfg" % w, workers=1, timeout=300,
                         expect_violation=w, count=False) for w in WITNESSES]
        f_e = ex.submit(ctx.tlc_edges, d, "MC_Cache.tla", "Gen_Cache_%s.cfg" % q, timeout=900)
        f_mc.result()
        for f in f_w:
            f.result()
        edges = f_e.result()
    ctx.exhaustive = True
    ctx.cov["witnesses_reached"] = WITNESSES
    walks = build_walks(edges, rng=rng, n_random=(100 if quick else 3000), depth=(10 if quick else 16))
    ctx.log("walks: %d covering %d edges" % (len(walks), len(edges)))
    cases = os.path.join(ctx.scratch, "cases.json")
    with open(cases, "w") as fh:
        json.dump({"walks": [[e["o"] for e in w] for w in walks],
                   "histories": 200 if quick else 5000, "storms": 120 if quick else 1500}, fh)
    trace = os.path.join(ctx.scratch, "trace.ndjson")
    ctx.go_harness("storage", "^TestVerifCacheReplay$", env={"VERIF_CASES": cases, "VERIF_TRACE": trace},
                   timeout=1200)
    events = read_ndjson(trace)
    traces = split_traces(events)
    ttl = min([e.get("ttl", 0) for e in events if e["ev"] == "Reset"] or [0])
    if ttl < 600:
        raise Infra("cache TTL of the store under test is %s s: expiry (not modelled) could interfere" % ttl)
    ctx.evaluations = sum(1 for e in events if e["ev"] in ("Op", "Call"))
    ctx.distinct = len({json.dumps([e.get("o") for e in t[1] if "o" in e], sort_keys=True) for t in traces})
    nconc = sum(1 for t in traces if any(e["ev"] == "Call" for e in t[1]))
    nfail = sum(1 for e in events if e["ev"] == "Ret" and not e["ok"])
    ctx.cov["edges_replayed"] = len(edges)
    ctx.cov["concurrent_histories"] = nconc
    ctx.cov["concurrent_calls_failed_with_conflict"] = nfail
    ctx.rule = ("every edge of the exhaustive TLC state graph of spec/Cache (2 payloads x 2 envelopes, limits 0..3, "
                "queue length <= %s) replayed on the real cache DB of a BadgerStore by greedy edge-cover tours, seeded "
                "random walks, and seeded concurrent histories (2-4 goroutines x 1-2 calls after a sequential prefix, "
                "3 payloads), and queue storms (4 goroutines queue differently signed envelopes of one payload at once, then "
                "the queue is drained with limit 1); distinct = distinct operation sequences" % q[1:])
    ctx.samples = [[e.get("o", e["ev"]) for e in t[1]][:10] for t in traces[:2] + traces[-2:]]
    validate(ctx, d, trace, events, traces)
    ctx.assumptions += [
        "TTL expiry of cache records (config cache-ttl = %d s) is not modelled; the harness runs far below it" % ttl,
        "goroutine schedules on the real store are sampled, not enumerated (exhaustive only in the model)",
        "an optimistic cache transaction that fails with ErrConflict after its retries has no effect (Badger atomicity)",
        "queue records written by racing Queue calls may sort in any order among themselves (clock read before commit)",
    ]


def validate(ctx, d, trace, events, traces):
    r = ctx.tlc_trace(d, "Trace_Cache.tla", "Trace_Cache_full.cfg", trace, timeout=1500)
    if r["accepted"]:
        ctx.traces = len(traces)
        ctx.log("E2 full conformance: %d traces / %d lines accepted" % (len(traces), len(events)))
        return
    ctx.log("E2 full conformance rejected at line %s (invariant %s); running the property monitor"
            % (r["line"], r["invariant"]))
    ctx.mismatches.append({"line": r["line"], "invariant": r["invariant"],
                           "event": events[r["line"] - 1] if r["line"] and r["line"] <= len(events) else None})
    r2 = ctx.tlc_trace(d, "Trace_Cache.tla", "Trace_Cache_C23.cfg", trace, timeout=1500)
    if r2["accepted"]:
        ctx.traces = len(traces)
        ctx.notes.append("conformance mismatch not forbidden by this property (see conformance_mismatches)")
        return
    line = r2["line"] or 1
    bad = None
    for first, evs in traces:
        if first <= line < first + len(evs) + 1:
            bad = (first, evs)
    if bad is None:
        bad = traces[-1]
    ctx.traces = sum(1 for first, evs in traces if first + len(evs) <= line)
    ctx.violation("recorded execution of the real cache DB breaks C23 (monitor Cache!StepOK / concurrent accounting; "
                  "%s; line %d of the trace, event %s)"
                  % (r2["invariant"] or "no enabled action explains the event", line,
                     json.dumps(events[line - 1]) if line <= len(events) else "?"),
                  {"trace": bad[1], "failing_index": line - bad[0], "invariant": r2["invariant"],
                   "how": "VERIF_SEED=%d python3 tools/vcheck.py C23 --tier %s" % (ctx.seed, ctx.tier)})
