"""C12 — a CoSi nonce never answers two different challenges (spec/Cosi: NonceAtomic.tla, Nonce.tla,
MC_Nonce*.tla, Trace_Nonce.tla; harness/inpkg/crypto/zz_verif_nonce_test.go)."""
import json, os, random, threading
from concurrent.futures import ThreadPoolExecutor

PROPS = ["C12"]
from vlib import build_walks, read_ndjson, split_traces, Infra


def run(ctx, args):
    quick = ctx.tier == "quick"
    rng = random.Random(ctx.seed)
    d = ctx.specdir("Cosi")
    if getattr(args, "replay", None):
        return replay(ctx, d, args.replay)

    # ---- E3: statement-level algorithm, every interleaving (mutex present); non-vacuity: the same algorithm
    # without the mutex MUST break each part of the property; the atomic machine; E1 edge emission.
    jobs = [("MC_Nonce.tla", "MC_Nonce_%s.cfg" % c, None) for c in ["A", "B", "C"] + ([] if quick else ["D"])]
    jobs += [("MC_Nonce.tla", "MC_Nonce_%s.cfg" % c, inv) for c, inv in
             (("NoLock_One", "OneChallenge"), ("NoLock_Same", "SameResponse"), ("NoLock_Key", "KeySafe"),
              ("Reach_Reuse", "ReachReuse"), ("Reach_Cached", "ReachCached"))]
    jobs += [("MC_NonceSeq.tla", "MC_NonceSeq.cfg", None), ("MC_NonceSeq.tla", "Gen_NonceSeq.cfg", "EDGES")]

    def e3(j):
        tla, cfg, inv = j
        if inv == "EDGES":
            return ctx.tlc_edges(d, tla, cfg)
        return ctx.tlc_mc(d, tla, cfg, workers=2, timeout=900, expect_violation=inv, count=False)

    pool = ThreadPoolExecutor(max_workers=6)
    futs = [pool.submit(e3, j) for j in reversed(jobs)][::-1]      # the edge emission first: E1 waits for it
    golock = threading.Lock()                                       # one `go test` at a time (shared overlay files)
    kfut = pool.submit(kernel_layer, ctx, d, random.Random(ctx.seed + 1), quick, golock)

    def collect_e3():
        for j, f in zip(jobs, futs):
            r = f.result()
            if j[2] is None:
                ctx.states += r["distinct"]
                ctx.transitions += r["generated"]
        ctx.cov["non_vacuity_witnesses"] = [j[1] + " violates " + j[2] for j in jobs if j[2] not in (None, "EDGES")]
        ctx.exhaustive = True
        pool.shutdown()

    # ---- E1: every transition of the atomic machine -> sequential walks on the real CosiNonce
    edges = futs[-1].result()
    walks = build_walks(edges, rng=rng, n_random=(40 if quick else 400), depth=10)
    ops = [[e["o"] for e in w] for w in walks]
    hist = int(os.environ.get("VERIF_NONCE_HIST", "0")) or (800 if quick else 20000)
    cases = os.path.join(ctx.scratch, "cases.json")
    with open(cases, "w") as fh:
        json.dump({"walks": ops, "histories": hist}, fh)
    trace = os.path.join(ctx.scratch, "trace.ndjson")
    with golock:
        ctx.go_harness("crypto", "^TestVerifNonce$", env={"VERIF_CASES": cases, "VERIF_TRACE": trace}, timeout=1200)
    events = read_ndjson(trace)
    traces = split_traces(events)
    ctx.log("recorded %d executions (%d walks covering %d edges, %d concurrent histories), %d lines"
            % (len(traces), len(ops), len(edges), hist, len(events)))
    ctx.evaluations = sum(1 for e in events if e["ev"] == "Call")

    def key(evs):
        return json.dumps([[e.get(k) for k in ("ev", "p", "n", "c", "res", "reuse")] for e in evs])

    def nontrivial(evs):
        per = {}
        for e in evs:
            if e["ev"] == "Call":
                per.setdefault(e["n"], set()).add(e["c"])
        return any(len(v - {"bad"}) >= 2 for v in per.values())

    ctx.distinct = len({key(t[1]) for t in traces if nontrivial(t[1])})
    overl = 0
    for _, evs in traces:
        pend, o = set(), False
        for e in evs:
            if e["ev"] == "Call":
                o = o or bool(pend)
                pend.add(e["p"])
            elif e["ev"] == "Ret":
                pend.discard(e["p"])
        overl += o
    ctx.cov["executions_with_overlapping_calls"] = overl
    kv, kvsame = 0, 0
    for _, evs in traces:
        callof = {}
        for e in evs:
            if e["ev"] == "Call":
                callof[e["p"]] = e
            elif e["ev"] == "Ret" and e["p"] in callof:
                v = callof[e["p"]].get("var")
                kv += bool(e.get("reuse")) and v in (4, 6)
                kvsame += e["res"] == "ok" and v == 5
    ctx.cov["refusals_of_challenges_differing_only_in_the_key_vector"] = kv
    ctx.cov["answers_through_a_different_key_vector_with_the_same_challenge"] = kvsame
    ctx.cov["refusals_observed"] = sum(1 for e in events if e["ev"] == "Ret" and e.get("reuse"))
    ctx.cov["identical_retries_answered"] = sum(1 for e in events if e["ev"] == "Ret" and e["res"] == "ok") - \
        sum(1 for t in traces for n in {e["n"] for e in t[1] if e["ev"] == "Call"})
    ctx.rule = ("executions of the real CosiNonce: every edge of the TLC state graph of the atomic machine as a "
                "sequential walk, plus seeded concurrent histories (2-8 goroutines, 1-3 calls each, handle copies, "
                "sequential prefix/suffix); distinct = distinct call/return event sequences in which one nonce "
                "is asked for at least two different computable challenges")
    ctx.samples = [[{k: e[k] for k in ("ev", "p", "n", "c", "res", "reuse", "r") if k in e} for e in t[1]][:14]
                   for t in traces[:1] + traces[-2:]]

    # ---- E2: linearization search by TLC, in shards of whole executions
    per = 300 if quick else 1000
    shards = [traces[i:i + per] for i in range(0, len(traces), per)]
    paths = []
    for i, sh in enumerate(shards):
        p = os.path.join(ctx.scratch, "shard%d.ndjson" % i)
        with open(p, "w") as fh:
            for _, evs in sh:
                for e in evs:
                    fh.write(json.dumps(e) + "\n")
        paths.append(p)

    def check(i):
        r = ctx.tlc_trace(d, "Trace_Nonce.tla", "Trace_Nonce_full.cfg", paths[i], timeout=900)
        if r["accepted"]:
            return i, r, None
        return i, r, ctx.tlc_trace(d, "Trace_Nonce.tla", "Trace_Nonce_monitor.cfg", paths[i], timeout=900)

    with ThreadPoolExecutor(max_workers=4 if quick else 6) as ex:
        results = list(ex.map(check, range(len(shards))))
    for i, r, r2 in results:
        sh = shards[i]
        if r["accepted"]:
            ctx.traces += len(sh)
            continue
        local = [e for _, evs in sh for e in evs]
        ctx.mismatches.append({"shard": i, "line": r["line"], "invariant": r["invariant"],
                               "event": local[r["line"] - 1] if r["line"] and r["line"] <= len(local) else None})
        if r2["accepted"]:
            ctx.traces += len(sh)
            ctx.notes.append("conformance mismatch not forbidden by C12 (see conformance_mismatches)")
            continue
        line = r2["line"] or 1
        bad, off, okn = sh[-1][1], 0, 0
        pos = 1
        for _, evs in sh:
            if pos <= line < pos + len(evs) + 1:
                bad, off = evs, line - pos
                break
            okn += 1
            pos += len(evs)
        ctx.traces += okn
        ctx.violation("recorded execution of the real CosiNonce cannot be explained by the single-use nonce "
                      "specification: no linearization of the calls gives the returned values "
                      "(monitor %s; event %d of the execution: %s)"
                      % (r2["invariant"] or "no enabled action", off,
                         json.dumps(local[line - 1]) if line <= len(local) else "?"),
                      {"trace": bad, "failing_index": off, "spec": "spec/Cosi/Trace_Nonce.tla",
                       "cfg": "Trace_Nonce_monitor.cfg",
                       "how": "python3 tools/vcheck.py C12 --replay <this file> re-validates the recorded execution; "
                              "VERIF_SEED=%d python3 tools/vcheck.py C12 --tier %s re-runs the driver" % (ctx.seed, ctx.tier)})
    ctx.log("E2: %d executions accepted by TLC" % ctx.traces)
    apply_kernel(ctx, kfut.result())
    collect_e3()
    ctx.assumptions += [
        "cryptographic hardness is assumed: challenges and responses are symbolic in the model (equality classes of the "
        "real bytes in traces); the key-extraction condition is evaluated by the harness with the real scalars on the "
        "responses actually returned and only its boolean outcome is judged by TLC",
        "goroutine schedules on the real CosiNonce are sampled (seeded, many runs), not enumerated; every interleaving "
        "is explored only in the statement-level model (MC_Nonce_*)",
        "sync.Mutex is a correct mutex; the Go memory model is not modelled (the lock-free variant is modelled with "
        "sequentially consistent statements)",
    ]
    if ctx.tier == "thorough":
        # system level: the CoSi exchange of a real multi-node network (spec/Net/Trace_Cosi.tla, monitor C12)
        import cosinet
        cosinet.run_cosinet(ctx)


def kernel_layer(ctx, d, rng, quick, golock):
    """kernel/cosi.go cosiRetrieveRandom / retainUsedCosiNonce + Response on a real kernel.Chain value.
    Runs beside the crypto layer; returns what has to be added to the evidence (applied by apply_kernel)."""
    out = {"states": 0, "transitions": 0, "evaluations": 0, "traces": 0, "cov": None, "notes": [], "mismatches": [],
           "violation": None}
    jobs = [("MC_KNonce_big.cfg", None), ("MC_KNonce_evict.cfg", None),
            ("MC_KNonce_Reach_Refuse.cfg", "ReachRefuse"), ("MC_KNonce_Reach_Evict.cfg", "ReachEvict")]
    with ThreadPoolExecutor(max_workers=4) as ex:
        futs = [ex.submit(ctx.tlc_mc, d, "MC_KNonce.tla", cfg, 2, (), 900, False, inv, False) for cfg, inv in jobs]
        edges = ctx.tlc_edges(d, "MC_KNonce.tla", "Gen_KNonce.cfg")
        for (cfg, inv), f in zip(jobs, futs):
            r = f.result()
            if inv is None:
                out["states"] += r["distinct"]
                out["transitions"] += r["generated"]
    walks = build_walks(edges, rng=rng, n_random=(50 if quick else 1000), depth=12)
    cases = os.path.join(ctx.scratch, "kcases.json")
    with open(cases, "w") as fh:
        json.dump({"walks": [[e["o"] for e in w] for w in walks]}, fh)
    trace = os.path.join(ctx.scratch, "ktrace.ndjson")
    try:
        with golock:
            ctx.go_harness("kernel", "^TestVerifKNonce$", env={"VERIF_CASES": cases, "VERIF_TRACE": trace}, timeout=1200)
    except Infra as ex:
        # the crypto-level verdict stands on its own; the kernel layer is reported as not run
        out["notes"].append("kernel layer (cosiRetrieveRandom) NOT checked in this run: %s" % str(ex)[:300])
        out["cov"] = "not run"
        return out
    events = read_ndjson(trace)
    n_exec = sum(1 for e in events if e["ev"] == "KReset")
    steps = sum(1 for e in events if e["ev"] == "KOp")
    out["evaluations"] = steps
    r = ctx.tlc_trace(d, "Trace_KNonce.tla", "Trace_KNonce_full.cfg", trace, timeout=900)
    if r["accepted"]:
        out["traces"] = n_exec
        out["cov"] = "%d walks / %d steps covering %d edges of MC_KNonce accepted" % (n_exec, steps, len(edges))
        ctx.log("E2 kernel layer: %d walks, %d steps accepted by TLC" % (n_exec, steps))
        return out
    out["mismatches"].append({"layer": "kernel", "line": r["line"], "invariant": r["invariant"],
                              "event": events[r["line"] - 1] if r["line"] and r["line"] <= len(events) else None})
    r2 = ctx.tlc_trace(d, "Trace_KNonce.tla", "Trace_KNonce_monitor.cfg", trace, timeout=900)
    if r2["accepted"]:
        out["traces"] = n_exec
        out["cov"] = "conformance mismatch not forbidden by C12"
        out["notes"].append("kernel layer: conformance mismatch not forbidden by C12 (see conformance_mismatches)")
        return out
    line = r2["line"] or 1
    first = max(i for i in range(min(line, len(events))) if events[i]["ev"] == "KReset")
    last = next((i for i in range(first + 1, len(events)) if events[i]["ev"] == "KReset"), len(events))
    out["cov"] = "violation"
    out["violation"] = ("kernel layer: a nonce handed out by cosiRetrieveRandom answered in a way the single-use nonce "
                        "specification forbids (monitor %s; event %s)"
                        % (r2["invariant"] or "no enabled action",
                           json.dumps(events[line - 1]) if line <= len(events) else "?"),
                        {"layer": "kernel", "trace": events[first:last], "failing_index": line - 1 - first,
                         "spec": "spec/Cosi/Trace_KNonce.tla", "cfg": "Trace_KNonce_monitor.cfg"})
    return out


def apply_kernel(ctx, out):
    ctx.states += out["states"]
    ctx.transitions += out["transitions"]
    ctx.evaluations += out["evaluations"]
    ctx.traces += out["traces"]
    ctx.cov["kernel_layer"] = out["cov"]
    ctx.notes += out["notes"]
    ctx.mismatches += out["mismatches"]
    if out["violation"]:
        ctx.violation(*out["violation"])


def replay(ctx, d, path):
    obj = json.load(open(path))
    evs = obj["replay"]["trace"]
    p = os.path.join(ctx.scratch, "replay.ndjson")
    with open(p, "w") as fh:
        for e in evs:
            fh.write(json.dumps(e) + "\n")
    spec = "Trace_KNonce" if obj["replay"].get("layer") == "kernel" else "Trace_Nonce"
    ctx.tlc_mc(d, "MC_NonceSeq.tla", "MC_NonceSeq.cfg", workers=2, timeout=300)     # the atomic machine replayed against
    r = ctx.tlc_trace(d, spec + ".tla", spec + "_monitor.cfg", p)
    ctx.evaluations = sum(1 for e in evs if e["ev"] == "Call")
    if r["accepted"]:
        ctx.traces = 1
        ctx.log("replay: the recorded execution is accepted by the monitor")
        return
    ctx.violation("replayed recorded execution rejected by the C12 monitor at event %s" % r["line"],
                  {"trace": evs, "failing_index": (r["line"] or 1) - 1})
