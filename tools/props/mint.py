"""C25 — mint schedule and distribution are bounded, exact and work-monotone (spec/Mint over BigNat).

E3: a reduced-scale decay schedule (all small pools x year lengths x decay ratios) and all work vectors
    of 4-5 nodes over a small domain are checked exhaustively by TLC for the design-level theorems.
E2: an in-package kernel driver calls the real mintBatchSize for every batch up to the horizon,
    mintMultiBatchesSize on seeded ranges, distributeKernelMintByWorks and
    buildUniversalMintTransaction on a real Node/BadgerStore whose works were written by the real
    WriteRoundWork; TLC evaluates the relations on every recorded event (spec/Mint/Trace_Mint.tla)."""
import json, os
from concurrent.futures import ThreadPoolExecutor

PROPS = ["C25"]
from vlib import read_ndjson, Infra
from amounts import validate_parallel


def run(ctx, args):
    quick = ctx.tier == "quick"
    os.environ.setdefault("JDK_JAVA_OPTIONS", "-XX:ParallelGCThreads=2 -XX:CICompilerCount=2")
    d = ctx.specdir("Mint")
    trace = os.path.join(ctx.scratch, "trace.ndjson")
    env = {"VERIF_TRACE": trace,
           "VERIF_BATCHES": 1500 if quick else 40000,
           "VERIF_MULTIS": 60 if quick else 800,
           "VERIF_VECTORS": 42 if quick else 1200}

    def mc(tla, cfg, workers=3, **kw):
        return lambda: ctx.tlc_mc(d, tla, cfg, workers=workers, timeout=2400, xss=True, **kw)

    e3 = [mc("MC_Mint.tla", "MC_Mint_quick.cfg" if quick else "MC_Mint_thorough.cfg"),
          mc("MC_MintDist.tla", "MC_MintDist_quick.cfg" if quick else "MC_MintDist_thorough.cfg"),
          mc("MC_Mint.tla", "MC_Mint_witnessDecrease.cfg", workers=1, expect_violation="WitnessDecrease", count=False),
          mc("MC_Mint.tla", "MC_Mint_witnessZero.cfg", workers=1, expect_violation="WitnessZero", count=False),
          mc("MC_MintDist.tla", "MC_MintDist_Witness.cfg", workers=1, expect_violation="Witness", count=False),
          mc("MC_MintDist.tla", "MC_MintDist_WitnessRefused.cfg", workers=1, expect_violation="WitnessRefused", count=False)]
    if not quick:
        e3 += [mc("MC_Mint.tla", "MC_Mint_w4.cfg"), mc("MC_MintDist.tla", "MC_MintDist_n5.cfg")]

    def go():
        ctx.go_harness("kernel", "^TestVerifMint$", env=env, timeout=2400)

    with ThreadPoolExecutor(max_workers=4 if quick else 8) as ex:
        gf = ex.submit(go)
        futs = [ex.submit(f) for f in e3]
        gf.result()
        events = read_ndjson(trace)
        sched = [e for e in events if e["ev"] in ("init", "batch")]
        rest = [e for e in events if e["ev"] not in ("init", "batch")]
        ctx.log("recorded %d schedule events, %d multi/dist/build events" % (len(sched), len(rest)))
        a1 = ex.submit(validate_parallel, ctx, d, "Trace_Mint.tla", "Trace_Mint_full.cfg", "Trace_Mint_monitor.cfg",
                       sched, "C25 mint schedule", 1, True, 3600)
        acc = validate_parallel(ctx, d, "Trace_Mint.tla", "Trace_Mint_full.cfg", "Trace_Mint_monitor.cfg",
                                rest, "C25 mint multi/distribution", workers=4 if quick else 10, timeout=3600)
        acc += a1.result()
        for f in futs:
            f.result()
    ctx.exhaustive = True
    ctx.evaluations = len(events)
    ctx.traces = acc
    ctx.distinct = len({json.dumps(e, sort_keys=True) for e in events if e["ev"] != "init"})
    by = {}
    for e in events:
        k = e["ev"] + ":" + e.get("res", "")
        by[k] = by.get(k, 0) + 1
    ctx.cov["events_by_kind_outcome"] = by
    ctx.cov["horizon_batches"] = env["VERIF_BATCHES"]
    ctx.rule = ("batch events: every batch 1..horizon; multi: seeded (old, batch] ranges incl. year boundaries; "
                "dist/build: seeded work vectors (zeros, ties, outliers, injected extremes) for genesis sizes 7..50; "
                "distinct = distinct recorded events")
    ctx.samples = [{k: v for k, v in e.items() if k not in ("sizes",)} for e in rest if e["ev"] in ("multi", "build")][:3]
    ctx.assumptions += [
        "every batch 1..horizon is driven (quick 1500, thorough 40000 = 109 years); multi ranges reach the last batch with a positive amount (year 221); beyond it mintMultiBatchesSize refuses (Integer.Add of a zero amount) and is not driven",
        "work vectors are seeded samples; extreme outliers are injected at the store reader (ListNodeWorks) because they cannot be produced by a feasible number of WriteRoundWork calls",
        "the readiness precondition (validateWorksAndSpacesAggregator) is satisfied by construction for every vector",
    ]
