"""C34 — custodian updates are accepted only in canonical, fully signed form (spec/Custodian).

E3: the decision table (all previous-state parameter combinations x every single defect and every
    pair of defects) with the theorem Accept => C34 conditions.
E1: every case is concretized with real keys/signatures and run through the real
    EncodeCustodianNode / ParseCustodianUpdateNodesExtra / validateCustodianUpdateNodes;
    seeded single-bit mutations of valid updates of 7..50 entries.
E2: TLC validates every recorded outcome (spec/Custodian/Trace_Custodian.tla)."""
import json, os, random

PROPS = ["C34"]
from vlib import read_ndjson, Infra
from amounts import validate_parallel


def run(ctx, args):
    quick = ctx.tier == "quick"
    rng = random.Random(ctx.seed)
    d = ctx.specdir("Custodian")
    from concurrent.futures import ThreadPoolExecutor
    with ThreadPoolExecutor(max_workers=3) as ex:
        f1 = ex.submit(lambda: ctx.tlc_mc(d, "MC_Custodian.tla", "MC_Custodian_2.cfg", workers=4, timeout=900))
        f2 = ex.submit(lambda: ctx.tlc_mc(d, "MC_Custodian.tla", "MC_Custodian_witness.cfg", workers=1, timeout=300,
                                          expect_violation="WitnessAccept", count=False))
        f3 = ex.submit(lambda: ctx.tlc_edges(d, "MC_Custodian.tla", "Gen_Custodian_1.cfg" if quick else "Gen_Custodian_2.cfg",
                                             tag="CASE ", timeout=1200))
        f1.result(); f2.result()
        raw = f3.result()
    ctx.exhaustive = True
    seen, cases = set(), []
    for k in raw:
        key = json.dumps(k["c"], sort_keys=True)
        if key in seen:
            continue
        seen.add(key)
        cases.append(k)
    singles = [k for k in cases if k["d"] <= 1]
    doubles = [k for k in cases if k["d"] > 1]
    chosen = singles + doubles
    for k in chosen:
        # concretize some 8-entry cases to 50 entries, others to a seeded size
        k["pad"] = (42 if rng.random() < 0.5 else rng.randrange(0, 42)) if (k["c"]["n"] == 8 and rng.random() < 0.15) else 0
    ctx.log("cases: %d single-defect/base, %d two-defect (of %d distinct)" % (len(singles), len(doubles), len(cases)))
    cfile = os.path.join(ctx.scratch, "cases.json")
    with open(cfile, "w") as fh:
        json.dump({"cases": [{"c": k["c"], "pad": k["pad"]} for k in chosen], "mutations": 400 if quick else 6000}, fh)
    trace = os.path.join(ctx.scratch, "trace.ndjson")
    ctx.go_harness("common", "^TestVerifCustodian$", env={"VERIF_CASES": cfile, "VERIF_TRACE": trace}, timeout=1500)
    events = read_ndjson(trace)
    by = {}
    for e in events:
        k = e["ev"] + ":" + e["res"]
        by[k] = by.get(k, 0) + 1
    ctx.cov["events_by_kind_outcome"] = by
    acc = validate_parallel(ctx, d, "Trace_Custodian.tla", "Trace_Custodian_full.cfg", "Trace_Custodian_monitor.cfg",
                            events, "C34 custodian update", workers=4 if quick else 10, xss=False)
    ctx.evaluations = len(events)
    ctx.traces = acc
    ctx.distinct = len({json.dumps(e.get("c", [e.get("field"), e.get("resigned")]), sort_keys=True) for e in events})
    ctx.rule = ("one case = one abstract update (previous-state parameters x <= 2 defects) concretized with real keys and "
                "signatures (7/8 entries, a seeded share padded up to 50) plus seeded single-bit mutations of valid updates; "
                "distinct = distinct abstract cases / (field, resigned) mutation classes")
    ctx.samples = [{k: v for k, v in e.items() if k not in ("in", "out")} for e in events if e["res"] == "ok"][:3]
    ctx.assumptions += [
        "signatures are real Ed25519 signatures/forgeries of four shapes; unforgeability itself is assumed",
        "the previous custodian state is supplied through the CustodianReader interface by the harness (storage/badger_custodian.go is exercised by other checks)",
        "the quick tier replays the base and single-defect cases (two-defect cases are checked by TLC at design level and replayed in the thorough tier)",
    ]
