"""C14 — aggregate transaction signatures are sound and bound to their signer set (spec/Cosi: AggSig.tla,
MC_AggSig.tla, Trace_AggSig.tla; harness/inpkg/crypto/zz_verif_aggsig_test.go)."""
import json, os
from concurrent.futures import ThreadPoolExecutor

PROPS = ["C14"]
from vlib import read_ndjson, Infra
from cosi import validate_stateless, dedupe


def run(ctx, args):
    quick = ctx.tier == "quick"
    d = ctx.specdir("Cosi")
    tier = "quick" if quick else "thorough"
    wide = 300
    if getattr(args, "replay", None):
        obj = json.load(open(args.replay))
        cases = [e["c"] for e in obj["replay"]["trace"]]
        layouts = [e.get("layout", "any") for e in obj["replay"]["trace"]][:1]
        ctx.seed = obj.get("seed", ctx.seed)
        ctx.tlc_mc(d, "MC_AggSig.tla", "MC_AggSig_quick.cfg", workers=4, timeout=900)
    else:
        pool = ThreadPoolExecutor(max_workers=4)
        futs = [pool.submit(ctx.tlc_mc, d, "MC_AggSig.tla", "MC_AggSig_%s.cfg" % tier, 4, (), 900, False, None, False)]
        for cfg, inv in (("Reach_NonSigner", "ReachNonSignerKeyChange"), ("Reach_Verifies", "ReachVerifies")):
            futs.append(pool.submit(ctx.tlc_mc, d, "MC_AggSig.tla", "MC_AggSig_%s.cfg" % cfg, 2, (), 600, False, inv, False))
        cases = dedupe(ctx.tlc_edges(d, "MC_AggSig.tla", "Gen_AggSig_%s.cfg" % tier, tag="CASE "))
        r = futs[0].result()
        ctx.states += r["distinct"]
        ctx.transitions += r["generated"]
        for f in futs[1:]:
            f.result()
        pool.shutdown()
        ctx.exhaustive = True
        ctx.cov["non_vacuity_witnesses"] = ["a signature still verifies when only a non-signer's key changes",
                                            "a signature by all MaxN keys verifies"]
        layouts = ["any"] if quick else ["tight", "spread", "wide"]
    cf = os.path.join(ctx.scratch, "cases.json")
    with open(cf, "w") as fh:
        json.dump({"cases": cases, "layout": layouts, "wide": wide}, fh)
    trace = os.path.join(ctx.scratch, "trace.ndjson")
    ctx.go_harness("crypto", "^TestVerifAggSig$", env={"VERIF_CASES": cf, "VERIF_TRACE": trace}, timeout=1500)
    events = read_ndjson(trace)
    ctx.evaluations = len(events)
    ctx.distinct = len({json.dumps(e["c"], sort_keys=True) for e in events
                        if not (e["c"]["vs"] == e["c"]["ss"] and e["c"]["sig"] == "Good" and e["c"]["vmsg"] == "same"
                                and e["c"]["vkeys"]["op"] == "same")})
    ctx.cov["accepted_by_AggregateVerify"] = sum(1 for e in events if e["av"])
    ctx.cov["rejected_by_AggregateVerify"] = sum(1 for e in events if not e["av"])
    ctx.cov["largest_key_vector"] = max(e.get("N", 0) for e in events)
    ctx.cov["rogue_key_rows"] = sum(1 for e in events if e["c"]["sig"] == "Rogue")
    ctx.rule = ("every case of the TLC-enumerated space (1..4 abstract keys, every sorted signing list, every verification "
                "signer list over 0..n up to length %d incl. unsorted / duplicated / out-of-range / subset / superset, every "
                "signature kind incl. the rogue-key row, one change of message or key vector) executed with real keys%s; "
                "distinct = distinct abstract cases other than the honest round trip"
                % (3 if quick else 4, " (random layout, vectors up to %d keys)" % wide if quick
                   else " in three layouts (n keys, spread, up to %d keys)" % wide))
    ctx.samples = [{k: e[k] for k in ("c", "sign", "av", "N")} for e in events[:2] + events[-2:]]
    validate_stateless(ctx, d, "Trace_AggSig.tla", "Trace_AggSig", events, 8000,
                       "real AggregateSign/AggregateVerify disagree with the aggregate-signature specification", "aggsig")
    ctx.log("E2: %d case executions accepted by TLC" % ctx.traces)
    ctx.assumptions += [
        "cryptographic hardness is assumed: signatures are symbolic in the specification (Good, TamperedR, TamperedS, "
        "NonCanonS, Garbage, Plain = unweighted Schnorr by the summed keys, Rogue = key-cancellation row), each concretized "
        "as a real forgery of that shape; 'no other forgery exists' is not decided",
        "the signature binds the signers' (position, key) pairs and the message; a changed key of a NON-signer leaves "
        "verification unaffected (this is what the code does and what the specification states; the monitor demands failure "
        "only for changes that touch a signer)",
        "key vectors: 4 abstract keys placed inside real vectors of up to 300 keys",
    ]
