"""C01 / C02 / C05 — transaction validation as a decision table (spec/Validate).

TLC enumerates abstract transactions (family V: values/assets/types, S: signature layouts,
P: the widened product of shapes), proves the design-level theorems on every one of them and emits
them; the in-package harness (package storage, real BadgerStore, real Ed25519) concretizes each,
pushes it through the real codec and the real Validate and records what happened; TLC validates the
recorded events against spec/Validate/Trace_Validate.tla (full conformance first, then the
property's own monitor)."""
import json, os, random, concurrent.futures

PROPS = ["C01", "C02", "C05"]
from vlib import read_ndjson, Infra

FAMILY = {"C01": "V", "C02": "S", "C05": "P"}
CHUNK = 1500          # (quick; thorough uses 4x)
XCHUNK = 6000          # trace lines per TLC run


SLICE_K = 151


def emit_cases(ctx, d, fam, size, slices=(0,)):
    """E3 + E1 in one run: invariants (design theorems) checked on every case, every case emitted."""
    cfg = "Gen_Validate_%s_%s.cfg" % (fam, size)
    with open(os.path.join(d, cfg), "w") as fh:
        fh.write('SPECIFICATION Spec\nCONSTANTS\n  Family = "%s"\n  Size = "%s"\n  SliceK = %d\n  SliceSet = {%s}\n'
                 'INVARIANT TypeOK\nINVARIANT AcceptedConserves\nINVARIANT AcceptedAuthorized\n'
                 'CONSTRAINT EmitCase\nCHECK_DEADLOCK FALSE\n' % (fam, size, SLICE_K, ", ".join(str(x) for x in slices)))
    rows = ctx.tlc_edges(d, "MC_Validate.tla", cfg, timeout=1500, tag="CASE ")
    seen, uniq = set(), []
    for r in rows:
        k = json.dumps(r["c"], sort_keys=True)
        if k not in seen:
            seen.add(k)
            uniq.append(r)
    return uniq


def non_vacuity(ctx, rows, witnesses):
    """The theorems are implications from 'the specification accepts': TLC must have accepted cases of
    every interesting kind (read off the decisions TLC emitted)."""
    for name, pred in witnesses.items():
        n = sum(1 for r in rows if r["d"] == "ok" and pred(r["c"]))
        if n == 0:
            raise Infra("non-vacuity witness '%s' not reached: the enumeration has no accepted case of that kind" % name)
        ctx.cov.setdefault("accepted_by_spec", {})[name] = n


def batch_vectors(rng, quick):
    kinds = ["G", "WK", "WM", "TR", "TS", "GB", "TO", "ZS"]
    vecs = [[a] for a in kinds] + [[a, b] for a in kinds for b in kinds]
    vecs += [[a, b, c] for a in kinds for b in kinds for c in kinds if (a == "G") + (b == "G") + (c == "G") >= 2]
    # compensated pairs: two good signatures whose S halves are shifted by +d / -d
    vecs += [["K1", "K2"], ["K2", "K1"], ["G", "K1", "K2"], ["K1", "G", "K2"], ["K1", "K2", "G"], ["K1", "G", "G", "K2"],
             ["K1", "K2", "WK"], ["K1", "G"], ["K1"]]
    for _ in range(40 if quick else 400):
        n = rng.randint(4, 9)
        v = ["G"] * n
        r = rng.random()
        if r < 0.6:
            v[rng.randrange(n)] = rng.choice(kinds)
        elif r < 0.8:
            i, j = rng.sample(range(n), 2)
            v[i], v[j] = "K1", "K2"
        vecs.append(v)
    return [{"kinds": v} for v in vecs]


def validate_trace(ctx, d, pid, events):
    """Two passes (guide section 4) over chunks of the trace; returns the number of events accepted.
    Pass 1: full conformance. A chunk that fails it goes through the property monitor: the monitor
    rejecting an event is a violation, the monitor accepting the chunk leaves a conformance mismatch."""
    chunks, cur = [], []
    for e in events:
        # a Tamper event stays with its Val event
        if len(cur) >= (CHUNK if ctx.tier == "quick" else XCHUNK) and e["ev"] != "Tamper":
            chunks.append(cur)
            cur = []
        cur.append(e)
    if cur:
        chunks.append(cur)
    xss = pid == "C01"

    def write(name, evs):
        p = os.path.join(ctx.scratch, name)
        with open(p, "w") as fh:
            for e in evs:
                fh.write(json.dumps(e) + "\n")
        return p

    def run(mode, name, evs):
        return ctx.tlc_trace(d, "Trace_Validate.tla", "Trace_Validate_%s.cfg" % mode, write(name, evs),
                             timeout=1500, xss=xss, dfs=False)

    def one(i):
        ch = chunks[i]
        r = run("full", "t-%s-%d.ndjson" % (pid, i), ch)
        if r["accepted"]:
            return len(ch), [], []
        mism = [{"line_in_chunk": r["line"], "event": ch[(r["line"] or 1) - 1]}]
        viol, ok, start = [], 0, 0
        while start < len(ch):
            sub = ch[start:]
            r2 = run(pid, "m-%s-%d-%d.ndjson" % (pid, i, start), sub)
            if r2["accepted"]:
                ok += len(sub)
                break
            k = (r2["line"] or 1) - 1
            ok += k
            bad = sub[k]
            ctxev = [bad]
            if bad["ev"] == "Tamper":
                j = k
                while sub[j]["ev"] != "Val":
                    j -= 1
                ctxev = [sub[j], bad]
            viol.append(ctxev)
            start += k + 1
            while start < len(ch) and ch[start]["ev"] == "Tamper":
                start += 1
            if len(viol) >= 5:
                break
        return ok, mism, viol

    with concurrent.futures.ThreadPoolExecutor(max_workers=6) as ex:
        res = list(ex.map(one, range(len(chunks))))
    accepted = sum(r[0] for r in res)
    for _, mism, viol in res:
        ctx.mismatches.extend(mism)
        for ctxev in viol:
            if len(ctx.violations) < 12:
                ctx.violation(describe(pid, ctxev[-1]),
                              {"events": ctxev, "seed": ctx.seed, "gbits": ctx.cov.get("gbits"),
                               "how": "VERIF_SEED=%d python3 tools/vcheck.py %s --tier %s" % (ctx.seed, pid, ctx.tier)})
    if not ctx.mismatches:
        ctx.log("E2 full conformance: %d events in %d chunks accepted" % (len(events), len(chunks)))
    else:
        ctx.log("E2: %d chunks failed full conformance; property monitor: %d violations" % (len(ctx.mismatches), len(ctx.violations)))
        if not ctx.violations:
            ctx.notes.append("conformance mismatches not forbidden by this property (first per chunk in conformance_mismatches)")
    return accepted


def describe(pid, e):
    if pid == "C05":
        return "real validation panicked (%s) on a decodable transaction: %s" % (e.get("detail", "?"), short(e))
    if pid == "C01":
        return "real validation accepted a transaction that does not conserve value within one asset: %s" % short(e)
    if e["ev"] == "Batch":
        return "crypto.BatchVerify disagrees with per-signature Verify on %s: batch=%s singles=%s" % (e["kinds"], e["batch"], e["singles"])
    if e["ev"] == "Tamper":
        return "a tampered copy (%s, input %s) of an accepted transaction was accepted" % (e["kind"], e["j"])
    return "real validation accepted a transaction without threshold signatures: %s" % short(e)


def short(e):
    c = e.get("c")
    if not c:
        return json.dumps(e)[:300]
    return json.dumps({"asset": c["asset"], "ins": c["ins"], "outs": c["outs"], "sig": c["sig"], "extra": c["extra"],
                       "refs": c["refs"], "w": c["w"], "ts": c["ts"], "fork": c["fork"]})[:900]


def run_family(ctx, pid, sample_quick, slices=(0,)):
    quick = ctx.tier == "quick"
    size = "quick" if quick else "thorough"
    rng = random.Random(ctx.seed)
    fam = FAMILY[pid]
    d = ctx.specdir("Validate")
    rows = emit_cases(ctx, d, fam, size, slices)
    if not rows:
        raise Infra("no cases emitted")
    ctx.exhaustive = True
    ctx.states += len(rows)
    ctx.transitions += len(rows)
    cases = [r["c"] for r in rows]
    nacc = sum(1 for r in rows if r["d"] == "ok")
    ctx.log("E3: %d abstract transactions enumerated, %d accepted by the specification; theorems hold on all" % (len(rows), nacc))
    if quick and sample_quick and len(cases) > sample_quick:
        # seeded sample for the harness, every accepted case kept
        acc = [c for c, r in zip(cases, rows) if r["d"] == "ok"]
        rej = [c for c, r in zip(cases, rows) if r["d"] != "ok"]
        rng.shuffle(rej)
        keep = max(0, sample_quick - len(acc))
        cases = acc + rej[:keep]
        rng.shuffle(cases)
    for i, c in enumerate(cases):
        c["id"] = i + 1
    return d, cases, rng, quick, rows


def harness(ctx, pid, cases, extra):
    path = os.path.join(ctx.scratch, "cases-%s.json" % pid)
    trace = os.path.join(ctx.scratch, "trace-%s.ndjson" % pid)
    obj = {"mode": pid, "cases": cases}
    obj.update(extra)
    ctx.cov["gbits"] = extra.get("gbits")
    with open(path, "w") as fh:
        json.dump(obj, fh)
    ctx.go_harness("storage", "^TestVerifValidate$", env={"VERIF_CASES": path, "VERIF_TRACE": trace}, timeout=1500)
    ev = read_ndjson(trace)
    ctx.log("harness: %d events recorded from the real code" % len(ev))
    return ev


def run_C02(ctx, args):
    if getattr(args, "replay", None):
        return replay(ctx, args)
    d, cases, rng, quick, rows = run_family(ctx, "C02", 0)
    non_vacuity(ctx, rows, {
        "maps": lambda c: c["sig"]["k"] == "maps",
        "aggregate": lambda c: c["sig"]["k"] == "agg",
        "several inputs": lambda c: len(c["ins"]) >= 2,
        "threshold 0 input": lambda c: any(i["slot"][2] == "0" for i in c["ins"]),
        "threshold 2 input": lambda c: any(i["slot"][2] == "2" for i in c["ins"]),
    })
    events = harness(ctx, "C02", cases, {"tamper": True, "gbits": 2040, "batches": batch_vectors(rng, quick)})
    vals = [e for e in events if e["ev"] == "Val"]
    ctx.evaluations = len(events)
    ctx.distinct = len({json.dumps([e["c"]["ins"], e["c"]["sig"]], sort_keys=True) for e in vals}) + \
        len({json.dumps(e["kinds"]) for e in events if e["ev"] == "Batch"})
    ctx.rule = ("distinct = distinct (input shapes, signature container) layouts executed on the real Validate plus distinct "
                "BatchVerify vectors; every layout has at least one ordinary input and is built with real Ed25519 keys")
    ctx.cov["accepted_by_code"] = sum(1 for e in vals if e["res"] == "ok")
    ctx.cov["tamper_steps"] = sum(1 for e in events if e["ev"] == "Tamper")
    ctx.cov["batch_vectors"] = sum(1 for e in events if e["ev"] == "Batch")
    ctx.samples = [short(e) for e in vals[:3]]
    ctx.traces = validate_trace(ctx, d, "C02", events)
    ctx.assumptions += [
        "unforgeability of Ed25519 / the aggregate scheme is assumed: forged shapes are enumerated, not all forgeries",
        "node-accept and node-pledge outputs are released by consensus rules, not by keys; the monitor speaks about script and node-remove outputs",
        "thresholds above 4 and key lists above 3 keys are not enumerated (the code path is the same comparison)",
    ]


def run_C01(ctx, args):
    if getattr(args, "replay", None):
        return replay(ctx, args)
    d, cases, rng, quick, rows = run_family(ctx, "C01", 0)
    def typ(c):
        for i in c["ins"]:
            if i["mint"] != "none":
                return "mint"
            if i["dep"] != "none":
                return "deposit"
        for o in c["outs"]:
            if o["t"] != "script":
                return o["t"]
        return "script"
    wit = {}
    for t in ("script", "mint", "deposit", "submit", "claim", "pledge", "accept", "remove", "custodian"):
        wit[t] = (lambda t: lambda c: typ(c) == t)(t)
    wit["two inputs"] = lambda c: len(c["ins"]) == 2
    wit["huge amount"] = lambda c: any(o["amt"]["h"] > 0 for o in c["outs"])
    wit["word boundary (2^63 / 2^127 units)"] = lambda c: any(o["amt"]["w"] > 0 or o["amt"]["v"] > 0 for o in c["outs"])
    wit["near capacity"] = lambda c: any(i["amt"]["c"] > 0 for i in c["ins"])
    non_vacuity(ctx, rows, wit)
    events = harness(ctx, "C01", cases, {"gbits": 300 + (ctx.seed * 7919) % 1700})
    vals = [e for e in events if e["ev"] == "Val"]
    ctx.evaluations = len(vals)
    ctx.distinct = len({json.dumps([e["c"]["asset"], e["c"]["ins"], e["c"]["outs"]], sort_keys=True) for e in vals})
    ctx.rule = ("distinct = distinct (asset, inputs, outputs) combinations validated by the real Validate against the real "
                "ledger; each has at least one input or output amount and was concretized with real amounts (limbs logged)")
    ctx.cov["accepted_by_code"] = sum(1 for e in vals if e["res"] == "ok")
    ctx.cov["undecodable"] = sum(1 for e in events if e["ev"] == "Undecodable")
    ctx.samples = [short(e) for e in vals[:3]]
    ctx.traces = validate_trace(ctx, d, "C01", events)
    ctx.assumptions += [
        "amount classes: 0, 1, 2, 3, near the Bitcoin capacity, huge (2^180..2^219, present in the ledger), giant (2^k-1, k<=2040 by seed)",
        "two ledgers (with and without a pending pledge) built by real finalizations from a generated genesis; not every reachable ledger",
    ]


def run_C05(ctx, args):
    if getattr(args, "replay", None):
        return replay(ctx, args)
    quick = ctx.tier == "quick"
    rng0 = random.Random(ctx.seed)
    slices = [ctx.seed % SLICE_K] if quick else sorted(rng0.sample(range(SLICE_K), 12))
    d, cases, rng, quick, rows = run_family(ctx, "C05", 0, slices)
    ctx.exhaustive = False
    ctx.notes.append("E3 enumerates slices %s of %d of the widened product (linear design: one index is determined by the others); "
                     "the design-level totality theorem holds on every enumerated case" % (slices, SLICE_K))
    events = harness(ctx, "C05", cases, {"gbits": 524278 if ctx.seed % 2 else 4096 + (ctx.seed * 7919) % 60000, "raw": 1000 if quick else 30000})
    vals = [e for e in events if e["ev"] in ("Val", "Raw")]
    ctx.evaluations = len(vals)
    ctx.distinct = len({json.dumps(e["c"], sort_keys=True) for e in vals if e["ev"] == "Val"}) + \
        sum(1 for e in vals if e["ev"] == "Raw")
    ctx.rule = ("distinct = distinct abstract transactions that decoded and were validated under recover, plus decodable "
                "byte-level mutants; undecodable ones are not counted")
    ctx.cov["undecodable"] = sum(1 for e in events if e["ev"] == "Undecodable")
    ctx.cov["accepted_by_code"] = sum(1 for e in vals if e.get("res") == "ok")
    ctx.cov["panics"] = sum(1 for e in vals if e.get("res") == "panic")
    ctx.samples = [short(e) for e in vals[:3]]
    ctx.traces = validate_trace(ctx, d, "C05", events)
    ctx.assumptions += [
        "domain: snapshot timestamps >= the genesis custodian time; the ledger holds the genesis custodian record",
        "arbitrary byte strings are seeded samples (mutants of valid encodings), structured shapes are enumerated by TLC",
    ]


def replay(ctx, args):
    """Re-run the recorded failing execution of a replay file on the current tree and judge it again."""
    with open(args.replay) as fh:
        rp = json.load(fh)
    ctx.seed = rp.get("seed", ctx.seed)
    evs = rp["replay"]["events"]
    cases = [e["c"] for e in evs if e.get("ev") == "Val"]
    extra = {"tamper": any(e["ev"] == "Tamper" for e in evs), "gbits": rp["replay"].get("gbits", 2040),
             "batches": [{"kinds": e["kinds"]} for e in evs if e["ev"] == "Batch"],
             "rawhex": [e["hex"] for e in evs if e["ev"] == "Raw" and "hex" in e]}
    d = ctx.specdir("Validate")
    events = harness(ctx, ctx.pid, cases, extra)
    ctx.evaluations = len(events)
    ctx.distinct = len(events)
    ctx.states = ctx.transitions = len(events)
    ctx.rule = "replay of one recorded failing execution"
    ctx.traces = validate_trace(ctx, d, ctx.pid, events)


def run(ctx, args):
    if getattr(args, "replay", None):
        return replay(ctx, args)
    return {"C01": run_C01, "C02": run_C02, "C05": run_C05}[ctx.pid](ctx, args)
