"""C33 — fixed-point amounts behave like exact decimal arithmetic (spec/Amounts over BigNat).

E3: the BigNat/Amounts operators against TLC's native integers (all pairs of a range in base 10,
    boundary values in base 10^4) and the decimal text grammar (parse / print / normal form).
E2: a seeded in-package driver calls the real Integer / RationalNumber methods under recover;
    TLC re-computes every recorded event relationally (spec/Amounts/Trace_Amounts.tla)."""
import json, os
from concurrent.futures import ThreadPoolExecutor

PROPS = ["C33"]
from vlib import read_ndjson, Infra


def _chunks(events, k):
    n = len(events)
    size = (n + k - 1) // k
    return [(i, events[i:i + size]) for i in range(0, n, size)]


def validate_parallel(ctx, d, tla, cfg_full, cfg_mon, events, what, workers=6, xss=True, timeout=1500,
                      known_filter=None):
    """Stateless trace specs: split the recorded events in chunks, validate the chunks by parallel TLC
    runs. Full conformance first; a rejected chunk is re-validated by the property monitor.
    Returns number of events accepted."""
    parts = _chunks(events, workers)
    tag = "%s_%x" % (ctx.pid, abs(hash(what)) % (1 << 24))
    files = []
    for off, evs in parts:
        p = os.path.join(ctx.scratch, "chunk_%s_%d.ndjson" % (tag, off))
        with open(p, "w") as fh:
            for e in evs:
                fh.write(json.dumps(e) + "\n")
        files.append((off, evs, p))

    def one(item):
        off, evs, p = item
        return item, ctx.tlc_trace(d, tla, cfg_full, p, xss=xss, dfs=False, timeout=timeout)

    with ThreadPoolExecutor(max_workers=workers) as ex:
        results = list(ex.map(one, files))
    accepted = 0
    for (off, evs, p), r in results:
        if r["accepted"]:
            accepted += len(evs)
            continue
        line = r["line"] or 1
        ev = evs[line - 1] if line <= len(evs) else None
        ctx.log("E2 full conformance rejected event %d (%s); running the property monitor" % (off + line, json.dumps(ev)[:300]))
        ctx.mismatches.append({"index": off + line, "event": ev})
        # monitor pass: walk over every rejected event of this chunk
        rest = evs
        base = off
        while rest:
            pm = os.path.join(ctx.scratch, "mon_%s_%d.ndjson" % (tag, base))
            with open(pm, "w") as fh:
                for e in rest:
                    fh.write(json.dumps(e) + "\n")
            r2 = ctx.tlc_trace(d, tla, cfg_mon, pm, xss=xss, dfs=False, timeout=timeout)
            if r2["accepted"]:
                accepted += len(rest)
                break
            l2 = r2["line"] or 1
            bad = rest[l2 - 1] if l2 <= len(rest) else None
            accepted += l2 - 1
            ctx.violation("%s: recorded call of the real code contradicts the specification (event %d: %s)"
                          % (what, base + l2, json.dumps(bad)[:600]),
                          {"event": bad, "index": base + l2, "seed": ctx.seed, "tier": ctx.tier,
                           "rerun": "VERIF_SEED=%d python3 tools/vcheck.py %s --tier %s" % (ctx.seed, ctx.pid, ctx.tier)})
            if len(ctx.violations) >= 3:
                return accepted
            base += l2
            rest = rest[l2:]
        if not ctx.violations:
            ctx.notes.append("conformance mismatch not forbidden by this property (see conformance_mismatches)")
    return accepted


def run(ctx, args):
    quick = ctx.tier == "quick"
    # many JVMs run side by side: keep each one's collector small
    os.environ.setdefault("JDK_JAVA_OPTIONS", "-XX:ParallelGCThreads=2 -XX:CICompilerCount=2")
    d = ctx.specdir("Amounts")
    n = 1500 if quick else 30000
    trace = os.path.join(ctx.scratch, "trace.ndjson")

    # E3 runs and the Go driver are independent: run them side by side
    def mc(tla, cfg, workers=4, **kw):
        return lambda: ctx.tlc_mc(d, tla, cfg, workers=workers, timeout=1500, xss=True, **kw)

    e3 = [mc("MC_Amounts.tla", "MC_Amounts_small.cfg" if quick else "MC_Amounts_medium.cfg"),
          mc("MC_Amounts.tla", "MC_Amounts_boundary.cfg", workers=2),
          mc("MC_Amounts.tla", "MC_Amounts_witness.cfg", workers=1, expect_violation="Witness", count=False),
          mc("MC_AmountsText.tla", "MC_AmountsText_quick.cfg" if quick else "MC_AmountsText_thorough.cfg")]
    if not quick:
        e3 += [mc("MC_Amounts.tla", "MC_Amounts_base2.cfg"), mc("MC_AmountsText.tla", "MC_AmountsText_w1.cfg")]

    def go():
        ctx.go_harness("common", "^TestVerifAmounts$", env={"VERIF_TRACE": trace, "VERIF_N": n}, timeout=900)

    with ThreadPoolExecutor(max_workers=8) as ex:
        futs = [ex.submit(f) for f in [go] + e3]
        futs[0].result()
        events = read_ndjson(trace)
        ctx.log("recorded %d events from the real Integer/RationalNumber methods" % len(events))
        acc = validate_parallel(ctx, d, "Trace_Amounts.tla", "Trace_Amounts_full.cfg", "Trace_Amounts_monitor.cfg",
                                events, "C33 amounts", workers=6 if quick else 12)
        for f in futs[1:]:
            f.result()
    ctx.exhaustive = True
    ctx.evaluations = len(events)
    ctx.traces = acc
    ctx.distinct = len({json.dumps(e, sort_keys=True) for e in events
                        if e["res"] == "panic" or any(len(json.dumps(v)) > 30 for v in e.values())})
    ctx.rule = ("one event = one call of a real Integer/RationalNumber method with seeded operands "
                "(classes: 0, 1, unit multiples, 10^k, 10^k-1, 2^64 and 2^520 boundaries, random widths to 520 bits, "
                "negatives; random decimal texts); distinct = distinct events that were rejected by the code or "
                "carry a multi-limb operand")
    by = {}
    for e in events:
        by.setdefault(e["ev"] + ":" + e["res"], 0)
        by[e["ev"] + ":" + e["res"]] += 1
    ctx.cov["events_by_kind_outcome"] = by
    ctx.samples = [e for e in events if e["ev"] in ("count", "parse", "product")][:4]
    ctx.assumptions += [
        "operands are seeded samples of 0..2^520 (and a few negatives), not all values; the oracle itself is exhaustive only for small operands",
        "decimal texts are of the form [sign] digits [. digits]; exponent notation accepted by the decimal library is outside the specification",
        "math/big's decimal printing is trusted for converting recorded numbers to limb arrays",
    ]
