"""C28 — consensus operations form a serialized single-transaction chain (spec/Consensus).

E3: every history of offered operations up to 4 recorded ones (class x reference kind x timestamp
    kind x 1-2 transactions x repeat) and every snapshot of 1-3 transactions over all classes.
E1: every edge / case is replayed on a real Node + BadgerStore (WriteConsensusSnapshot under recover,
    validateConsensusTransactionReferences, validateKernelSnapshot).
E2: TLC validates the recorded trace (spec/Consensus/Trace_Consensus.tla)."""
import json, os, random

PROPS = ["C28"]
from vlib import build_walks, read_ndjson, split_traces, Infra


def run(ctx, args):
    quick = ctx.tier == "quick"
    rng = random.Random(ctx.seed)
    d = ctx.specdir("Consensus")
    from concurrent.futures import ThreadPoolExecutor
    with ThreadPoolExecutor(max_workers=5) as ex:
        f1 = ex.submit(ctx.tlc_mc, d, "MC_Consensus.tla", "MC_Consensus_hist.cfg", 2, (), 600)
        f2 = ex.submit(ctx.tlc_mc, d, "MC_Consensus.tla", "MC_Consensus_snap.cfg", 2, (), 600)
        f3 = ex.submit(lambda: ctx.tlc_mc(d, "MC_Consensus.tla", "MC_Consensus_witness.cfg", workers=1, timeout=600,
                                          expect_violation="Witness", count=False))
        f4 = ex.submit(ctx.tlc_edges, d, "MC_Consensus.tla", "Gen_Consensus_hist.cfg")
        f5 = ex.submit(lambda: ctx.tlc_edges(d, "MC_Consensus.tla", "Gen_Consensus_snap.cfg", tag="CASE "))
        for f in (f1, f2, f3):
            f.result()
        edges, snaps = f4.result(), f5.result()
    ctx.exhaustive = True
    walks = build_walks(edges, init=1, rng=rng, n_random=(10 if quick else 150), depth=12, maxlen=30)
    if quick:
        # all single-transaction cases, all 2-transaction snapshots, a seeded fifth of the 3-transaction ones
        snaps = [s for s in snaps if len(s["k"]["classes"]) < 3 or rng.random() < 0.2]
    ctx.log("walks: %d covering %d edges; snapshot cases: %d" % (len(walks), len(edges), len(snaps)))
    cases = os.path.join(ctx.scratch, "cases.json")
    with open(cases, "w") as fh:
        json.dump({"walks": walks, "snaps": snaps}, fh)
    trace = os.path.join(ctx.scratch, "trace.ndjson")
    ctx.go_harness("kernel", "^TestVerifConsensusOps$", env={"VERIF_CASES": cases, "VERIF_TRACE": trace}, timeout=1500)
    events = read_ndjson(trace)
    traces = split_traces(events)
    ctx.evaluations = sum(1 for e in events if e["ev"] != "Reset")
    ctx.distinct = len({json.dumps({k: v for k, v in e.items() if k not in ("res", "last", "len")}, sort_keys=True)
                        for e in events if e["ev"] != "Reset"})
    by = {}
    for e in events:
        k = e["ev"] + ":" + e.get("res", "")
        by[k] = by.get(k, 0) + 1
    ctx.cov["events_by_kind_outcome"] = by
    ctx.rule = ("every edge of the history model replayed on a real store (shortest path + edge) plus seeded walks; "
                "reference decision table (12 classes x 3 reference kinds x 3 timestamp kinds, repeat) at history "
                "lengths 1-3; snapshot decision table of 1-3 transactions over 12 classes; distinct = distinct "
                "abstract operations/cases executed")
    ctx.samples = [e for e in events if e["ev"] == "write" and e["res"] == "ok"][:2] + \
                  [e for e in events if e["ev"] == "ksnap" and e["res"] == "ok"][:2]
    r = ctx.tlc_trace(d, "Trace_Consensus.tla", "Trace_Consensus_full.cfg", trace)
    if r["accepted"]:
        ctx.traces = len(traces)
        ctx.log("E2 full conformance: %d traces / %d events accepted" % (len(traces), len(events)))
    else:
        line = r["line"] or 1
        ctx.log("E2 full conformance rejected at line %s (%s); running the property monitor" % (line, r["invariant"]))
        ctx.mismatches.append({"line": line, "event": events[line - 1] if line <= len(events) else None})
        r2 = ctx.tlc_trace(d, "Trace_Consensus.tla", "Trace_Consensus_monitor.cfg", trace)
        if r2["accepted"]:
            ctx.traces = len(traces)
            ctx.notes.append("conformance mismatch not forbidden by this property (see conformance_mismatches)")
        else:
            l2 = r2["line"] or 1
            bad = None
            for first, evs in traces:
                if first <= l2 < first + len(evs) + 1:
                    bad = (first, evs)
            bad = bad or traces[-1]
            ctx.traces = sum(1 for first, evs in traces if first + len(evs) <= l2)
            upto = [e for e in bad[1][: l2 - bad[0] + 1]]
            ctx.violation("C28: recorded execution of the real code contradicts the serialization rule "
                          "(monitor %s, line %d, event %s)" % (r2["invariant"] or "no action explains the event", l2,
                                                               json.dumps(events[l2 - 1])[:500] if l2 <= len(events) else "?"),
                          {"trace_prefix": upto[-40:], "failing_index": l2 - bad[0], "seed": ctx.seed})
    ctx.assumptions += [
        "only mint-class operations are driven to acceptance by WriteConsensusSnapshot (snapshots of membership/custodian operations cannot be stored without the full ledger state); refusals are driven for every class",
        "acceptance of a single consensus-class snapshot through validateKernelSnapshot is exercised with downstream-valid pledge transactions; other classes only show soundness (accepted => conditions)",
        "genesis-input transactions (which bypass the link check when the ledger is loaded) and mainnet legacy branches are outside the explored space",
    ]
    if ctx.tier == "thorough":
        # system level: durable writes of a real multi-node network (spec/Net/Trace_Net.tla)
        import netrace
        netrace.run_net(ctx)
