"""C27 — durable membership lifecycle (spec/Membership/Lifecycle.tla).

E3: TLC enumerates the automaton transcribed from storage/badger_node.go writeNode* over a
    boundary grid of timestamps (any order of timestamps: step property; strictly increasing
    timestamps: the global lifecycle invariants; witnesses that the latter need the former).
E1: every edge of the bounded state graph is replayed on a real BadgerStore through
    WriteTransaction + WriteSnapshot of minimal membership transactions.
E2: the recorded outcomes and ReadAllNodes read-backs (plus seeded random histories over a larger
    universe) are validated by TLC against Trace_Lifecycle (full conformance, then the monitor)."""
import json, os, random
from concurrent.futures import ThreadPoolExecutor

PROPS = ["C27"]
from vlib import build_walks, read_ndjson, split_traces, Infra

W = 2   # look-ahead window in abstract time units (cfg files use the same value)


def replay(ctx, path):
    """Re-execute the operations of a stored violation on the current tree and judge them again."""
    with open(path) as fh:
        rp = json.load(fh)["replay"]
    evs = rp["trace"]
    walk = {"gen": evs[0].get("gen", 0), "ops": [{k: e["o"][k] for k in ("op", "sg", "py", "ts")} for e in evs if e["ev"] == "Op"]}
    d = ctx.specdir("Membership")
    cases = os.path.join(ctx.scratch, "cases.json")
    with open(cases, "w") as fh:
        json.dump({"w": rp.get("w", W), "walks": [walk], "random": 0, "randlen": 0, "tmax": 0}, fh)
    trace = os.path.join(ctx.scratch, "trace.ndjson")
    ctx.go_harness("storage", "^TestVerifLifecycleReplay$", env={"VERIF_CASES": cases, "VERIF_TRACE": trace})
    events = read_ndjson(trace)
    ctx.evaluations = len(walk["ops"])
    ctx.distinct = 1
    ctx.rule = "replay of one stored operation sequence"
    validate(ctx, d, trace, events, split_traces(events))


def run(ctx, args):
    if getattr(args, "replay", None):
        return replay(ctx, args.replay)
    quick = ctx.tier == "quick"
    rng = random.Random(ctx.seed)
    d = ctx.specdir("Membership")
    mc = "MC_Lifecycle.tla"
    # ---- E3 (design level) and E1 emission, run side by side
    e3 = ["MC_Lifecycle_mono.cfg", "MC_Lifecycle_mono0.cfg"]
    e3 += ["MC_Lifecycle_q.cfg"] if quick else ["MC_Lifecycle_q.cfg", "MC_Lifecycle_empty.cfg", "MC_Lifecycle_empty_t.cfg", "MC_Lifecycle_t.cfg"]
    wit = [("MC_Lifecycle_wit_cycle.cfg", "WitnessFullCycle"), ("MC_Lifecycle_wit_twopledging.cfg", "WitnessTwoPledging")]
    if not quick:
        wit += [("MC_Lifecycle_wit_path.cfg", "WitnessPath"), ("MC_Lifecycle_wit_latest.cfg", "LatestReported"),
                ("MC_Lifecycle_wit_cancel.cfg", "WitnessCancel"), ("MC_Lifecycle_wit_panic.cfg", "WitnessPanic")]
    gens = [("Gen_Lifecycle_g1.cfg", 1), ("Gen_Lifecycle_g0.cfg", 0)] if quick else \
           [("Gen_Lifecycle_t1.cfg", 1), ("Gen_Lifecycle_g0.cfg", 0)]
    with ThreadPoolExecutor(max_workers=4) as ex:
        f3 = [ex.submit(ctx.tlc_mc, d, mc, c, workers=(4 if quick else 8), timeout=1500, count=False) for c in e3]
        fe = [ex.submit(ctx.tlc_edges, d, mc, c, timeout=1500) for c, _ in gens]
        fw = [ex.submit(ctx.tlc_mc, d, mc, c, workers=2, timeout=600, expect_violation=n, count=False) for c, n in wit]
        r3 = [f.result() for f in f3]
        edgesets = [f.result() for f in fe]
        [f.result() for f in fw]
    for r in r3:
        ctx.states += r["distinct"]
        ctx.transitions += r["generated"]
    ctx.exhaustive = True
    ctx.cov["witnesses_reached"] = [n for _, n in wit]
    # ---- E1: edge cover walks
    walks = []
    n_edges = 0
    for (cfg, gen), edges in zip(gens, edgesets):
        n_edges += len(edges)
        for e in edges:
            e["o"] = dict(e["o"], res=e["res"])     # edge identity includes the expected result
        ws = build_walks(edges, rng=rng, n_random=(40 if quick else 400), depth=10, maxlen=150)
        for w in ws:
            walks.append({"gen": gen, "ops": [{k: v for k, v in e["o"].items() if k != "res"} for e in w]})
    ctx.log("walks: %d covering %d edges" % (len(walks), n_edges))
    cases = os.path.join(ctx.scratch, "cases.json")
    with open(cases, "w") as fh:
        json.dump({"w": W, "walks": walks, "random": (400 if quick else 6000), "randlen": 10, "tmax": 14}, fh)
    trace = os.path.join(ctx.scratch, "trace.ndjson")
    ctx.go_harness("storage", "^TestVerifLifecycleReplay$", env={"VERIF_CASES": cases, "VERIF_TRACE": trace})
    events = read_ndjson(trace)
    traces = split_traces(events)
    ops = [e for e in events if e["ev"] == "Op"]
    ctx.evaluations = len(ops)
    ctx.distinct = len({json.dumps([[e["o"][k] for k in ("op", "sg", "py", "ts")] for e in t[1] if e["ev"] == "Op"])
                        + str(t[1][0].get("gen")) for t in traces})
    ctx.cov["edges_replayed"] = n_edges
    ctx.cov["results"] = {r: sum(1 for e in ops if e["res"] == r) for r in ("ok", "err", "panic")}
    ctx.rule = ("every edge (state x operation, legal and illegal) of the exhaustive TLC state graph of the bounded "
                "lifecycle automaton replayed on a real BadgerStore via WriteTransaction+WriteSnapshot (greedy edge "
                "cover), plus seeded random histories of 10 operations over 4 signers x 2 payees x 15 timestamps; "
                "distinct = distinct operation sequences (initial state included)")
    ctx.samples = [[dict(e["o"], res=e["res"]) for e in t[1] if e["ev"] == "Op"][:8] for t in traces[:1] + traces[-2:]]
    validate(ctx, d, trace, events, traces)
    ctx.assumptions += [
        "membership transactions are driven at the storage API (WriteTransaction + WriteSnapshot); the transaction "
        "validation layer (common/node.go) and the election windows (kernel/election.go) are not part of this check",
        "'currently pledging / accepted' is evaluated in the view the code consults: records up to the operation's "
        "timestamp plus the 12 h look-ahead window",
        "the global invariants (one pledging node, signer path, latest = last operation) are theorems of the automaton "
        "only under strictly increasing operation timestamps (TLC witnesses show they fail otherwise); the serialized "
        "consensus chain (C28) provides that order",
        "writeNodePledge's transaction-hash comparison is unreachable through WriteSnapshot (a transaction is "
        "materialized once) and is not modelled",
        "time is abstract: 1 unit = 6 h, window = 2 units; boundaries are exercised at equality and one unit either side",
    ]


def validate(ctx, d, trace, events, traces):
    r = ctx.tlc_trace(d, "Trace_Lifecycle.tla", "Trace_Lifecycle_full.cfg", trace)
    if r["accepted"]:
        ctx.traces = len(traces)
        ctx.log("E2 full conformance: %d traces / %d lines accepted" % (len(traces), len(events)))
        return
    ctx.log("E2 full conformance rejected at line %s (invariant %s); running the property monitor" % (r["line"], r["invariant"]))
    ctx.mismatches.append({"line": r["line"], "invariant": r["invariant"],
                           "event": events[r["line"] - 1] if r["line"] and r["line"] <= len(events) else None})
    r2 = ctx.tlc_trace(d, "Trace_Lifecycle.tla", "Trace_Lifecycle_monitor.cfg", trace)
    if r2["accepted"]:
        ctx.traces = len(traces)
        ctx.notes.append("conformance mismatch not forbidden by this property (see conformance_mismatches)")
        return
    line = r2["line"] or 1
    bad = None
    for first, evs in traces:
        if first <= line < first + len(evs) + 1:
            bad = (first, evs)
    if bad is None:
        bad = traces[-1]
    ctx.traces = sum(1 for first, evs in traces if first + len(evs) <= line)
    ctx.violation("recorded history of the real store is not a path of the membership lifecycle automaton "
                  "(monitor: %s, line %d of the trace, event %s)"
                  % (r2["invariant"] or "no legal transition explains the event", line,
                     json.dumps(events[line - 1]) if line <= len(events) else "?"),
                  {"trace": bad[1], "failing_index": line - bad[0], "invariant": r2["invariant"], "w": W})
