"""C19 / C20 - rounds of a chain (spec/Rounds/Rounds.tla).

C19: live round (kernel.CacheRound.validateSnapshot / asFinal)  -> run_C19
C20: round transitions (startNewRoundAndPersist / updateEmptyHeadRoundAndPersist) -> run_C20
"""
import json, os, random

PROPS = ["C19", "C20"]
from vlib import build_walks, read_ndjson, split_traces, Infra


def _validate(ctx, d, tla, cfg_full, cfg_mon, trace, events, traces, what):
    r = ctx.tlc_trace(d, tla, cfg_full, trace)
    if r["accepted"]:
        ctx.traces = len(traces)
        ctx.log("E2 full conformance: %d traces / %d lines accepted" % (len(traces), len(events)))
        return
    ctx.log("E2 full conformance rejected at line %s (invariant %s); running the property monitor"
            % (r["line"], r["invariant"]))
    ctx.mismatches.append({"line": r["line"], "invariant": r["invariant"],
                           "event": events[r["line"] - 1] if r["line"] and r["line"] <= len(events) else None})
    r2 = ctx.tlc_trace(d, tla, cfg_mon, trace)
    if r2["accepted"]:
        ctx.traces = len(traces)
        ctx.notes.append("conformance mismatch not forbidden by this property (see conformance_mismatches)")
        return
    line = r2["line"] or 1
    bad = None
    for first, evs in traces:
        if first <= line < first + len(evs) + 1:
            bad = (first, evs)
    if bad is None:
        bad = traces[-1]
    ctx.traces = sum(1 for first, evs in traces if first + len(evs) <= line)
    ctx.violation("%s (monitor: %s, line %d of the trace, event %s)"
                  % (what, r2["invariant"] or "no enabled action explains the event", line,
                     json.dumps(events[line - 1]) if line <= len(events) else "?"),
                  {"trace": bad[1], "failing_index": line - bad[0], "invariant": r2["invariant"]})


# ------------------------------------------------------------------------------------- C19
def run_C19(ctx, args):
    quick = ctx.tier == "quick"
    rng = random.Random(ctx.seed)
    d = ctx.specdir("Rounds")
    # ---- E3: every sequence of <= 5 candidates over the grid (exhaustive)
    ctx.tlc_mc(d, "MC_Rounds19.tla", "MC_Rounds19_quick.cfg" if quick else "MC_Rounds19.cfg", workers=8, timeout=1500)
    for w in ("ReachFive", "ReachSpan", "ReachMovedStart"):
        ctx.tlc_mc(d, "MC_Rounds19.tla", "MC_Rounds19_%s.cfg" % w, workers=4, timeout=600, expect_violation=w, count=False)
    ctx.exhaustive = True
    # ---- E1: every edge of the emission family -> walks on a real CacheRound
    edges = ctx.tlc_edges(d, "MC_Rounds19.tla", "Gen_Rounds19.cfg" if quick else "Gen_Rounds19_thorough.cfg", timeout=1500)
    ws = build_walks(edges, init=[], rng=rng, n_random=(300 if quick else 3000), depth=9, maxlen=40)
    walks = []
    for w in ws:
        ops = []
        for e in w:
            o = e["o"]
            if o["op"] == "Validate":
                ops.append({"op": "Validate", "s": o["s"], "add": o["add"]})
            else:
                ops.append({"op": "AsFinal"})
        # a random share of the refused/accepted candidates is also asked without add (ValidateSnapshot)
        extra = []
        for o in ops:
            if o["op"] == "Validate" and rng.random() < 0.15:
                extra.append({"op": "Validate", "s": o["s"], "add": False})
            extra.append(o)
        walks.append(extra)
    ctx.log("walks: %d covering %d edges" % (len(walks), len(edges)))
    cases = os.path.join(ctx.scratch, "cases19.json")
    with open(cases, "w") as fh:
        json.dump({"walks": walks, "random": 2000 if quick else 60000}, fh)
    trace = os.path.join(ctx.scratch, "trace19.ndjson")
    ctx.go_harness("kernel", "^TestVerifRounds19$", env={"VERIF_CASES": cases, "VERIF_TRACE": trace})
    events = read_ndjson(trace)
    traces = split_traces(events)
    ctx.evaluations = sum(1 for e in events if e["ev"] in ("Validate", "AsFinal"))
    ctx.distinct = len({json.dumps([[e["ev"], e.get("s"), e.get("add")] for e in t[1] if e["ev"] != "Reset"], sort_keys=True)
                        for t in traces if any(e["ev"] == "Validate" and e["res"] == "ok" for e in t[1])})
    ctx.cov["accepted_calls"] = sum(1 for e in events if e["ev"] == "Validate" and e["res"] == "ok")
    ctx.cov["refused_calls"] = sum(1 for e in events if e["ev"] == "Validate" and e["res"] == "err")
    ctx.cov["max_round_size"] = max([len(e["obs"]) for e in events if "obs" in e] + [0])
    ctx.rule = ("every edge (state, candidate) of the exhaustive TLC state graph of MC_Rounds19 (emission family) replayed on a real "
                "kernel.CacheRound via validateSnapshot(s, add)/asFinal, plus seeded random walks in that graph and seeded random "
                "candidate sequences on the half-second/ns lattice around day boundaries; distinct = distinct call sequences "
                "with at least one accepted candidate")
    ctx.samples = [[[e["ev"], e.get("s"), e.get("res")] for e in t[1]][:8] for t in traces[:2] + traces[-2:]]
    _validate(ctx, d, "Trace_Rounds19.tla", "Trace_Rounds19_full.cfg", "Trace_Rounds19_monitor.cfg", trace, events, traces,
              "recorded execution of the real CacheRound breaks the round invariant (distinct hashes/timestamps/transactions, "
              "one day, span < gap) or asFinal aborted")
    ctx.assumptions += [
        "timestamps < 2^63 (no uint64 wrap of timestamp + gap); timestamps of the form Base + u*0.5s + e ns, e in {-1,0,1}",
        "the Hash field of a candidate is assigned by the harness independently of its content (the round logic only reads the field)",
        "a candidate's own transaction list has no repeats (checked elsewhere in the kernel)",
    ]
