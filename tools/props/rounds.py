"""C19 / C20 - rounds of a chain (spec/Rounds/Rounds.tla).

C19: live round (kernel.CacheRound.validateSnapshot / asFinal)  -> run_C19
C20: round transitions (startNewRoundAndPersist / updateEmptyHeadRoundAndPersist) -> run_C20
"""
import json, os, random

PROPS = ["C19", "C20"]
from vlib import build_walks, read_ndjson, split_traces, Infra


def _validate(ctx, d, tla, cfg_full, cfg_mon, trace, events, traces, what):
    r = ctx.tlc_trace(d, tla, cfg_full, trace)
    if r["accepted"]:
        ctx.traces = len(traces)
        ctx.log("E2 full conformance: %d traces / %d lines accepted" % (len(traces), len(events)))
        return
    ctx.log("E2 full conformance rejected at line %s (invariant %s); running the property monitor"
            % (r["line"], r["invariant"]))
    ctx.mismatches.append({"line": r["line"], "invariant": r["invariant"],
                           "event": events[r["line"] - 1] if r["line"] and r["line"] <= len(events) else None})
    r2 = ctx.tlc_trace(d, tla, cfg_mon, trace)
    if r2["accepted"]:
        ctx.traces = len(traces)
        ctx.notes.append("conformance mismatch not forbidden by this property (see conformance_mismatches)")
        return
    line = r2["line"] or 1
    bad = None
    for first, evs in traces:
        if first <= line < first + len(evs) + 1:
            bad = (first, evs)
    if bad is None:
        bad = traces[-1]
    ctx.traces = sum(1 for first, evs in traces if first + len(evs) <= line)
    ctx.violation("%s (monitor: %s, line %d of the trace, event %s)"
                  % (what, r2["invariant"] or "no enabled action explains the event", line,
                     json.dumps(events[line - 1]) if line <= len(events) else "?"),
                  {"trace": bad[1], "failing_index": line - bad[0], "invariant": r2["invariant"]})


# ------------------------------------------------------------------------------------- C19
def run_C19(ctx, args):
    quick = ctx.tier == "quick"
    rng = random.Random(ctx.seed)
    d = ctx.specdir("Rounds")
    # ---- E3: every sequence of <= 5 candidates over the grid (exhaustive)
    ctx.tlc_mc(d, "MC_Rounds19.tla", "MC_Rounds19_quick.cfg" if quick else "MC_Rounds19.cfg", workers=8, timeout=3000)
    for w in ("ReachFive", "ReachSpan", "ReachMovedStart"):
        ctx.tlc_mc(d, "MC_Rounds19.tla", "MC_Rounds19_%s.cfg" % w, workers=4, timeout=600, expect_violation=w, count=False)
    ctx.exhaustive = True
    # ---- E1: every edge of the emission family -> walks on a real CacheRound
    edges = ctx.tlc_edges(d, "MC_Rounds19.tla", "Gen_Rounds19.cfg" if quick else "Gen_Rounds19_thorough.cfg", timeout=3000)
    ws = build_walks(edges, init=[], rng=rng, n_random=(300 if quick else 3000), depth=9, maxlen=40)
    walks = []
    for w in ws:
        ops = []
        for e in w:
            o = e["o"]
            if o["op"] == "Validate":
                ops.append({"op": "Validate", "s": o["s"], "add": o["add"]})
            else:
                ops.append({"op": "AsFinal"})
        # a random share of the refused/accepted candidates is also asked without add (ValidateSnapshot)
        extra = []
        for o in ops:
            if o["op"] == "Validate" and rng.random() < 0.15:
                extra.append({"op": "Validate", "s": o["s"], "add": False})
            extra.append(o)
        walks.append(extra)
    ctx.log("walks: %d covering %d edges" % (len(walks), len(edges)))
    cases = os.path.join(ctx.scratch, "cases19.json")
    with open(cases, "w") as fh:
        json.dump({"walks": walks, "random": 2000 if quick else 60000}, fh)
    trace = os.path.join(ctx.scratch, "trace19.ndjson")
    ctx.go_harness("kernel", "^TestVerifRounds19$", env={"VERIF_CASES": cases, "VERIF_TRACE": trace})
    events = read_ndjson(trace)
    traces = split_traces(events)
    ctx.evaluations = sum(1 for e in events if e["ev"] in ("Validate", "AsFinal"))
    ctx.distinct = len({json.dumps([[e["ev"], e.get("s"), e.get("add")] for e in t[1] if e["ev"] != "Reset"], sort_keys=True)
                        for t in traces if any(e["ev"] == "Validate" and e["res"] == "ok" for e in t[1])})
    ctx.cov["accepted_calls"] = sum(1 for e in events if e["ev"] == "Validate" and e["res"] == "ok")
    ctx.cov["refused_calls"] = sum(1 for e in events if e["ev"] == "Validate" and e["res"] == "err")
    ctx.cov["max_round_size"] = max([len(e["obs"]) for e in events if "obs" in e] + [0])
    ctx.rule = ("every edge (state, candidate) of the exhaustive TLC state graph of MC_Rounds19 (emission family) replayed on a real "
                "kernel.CacheRound via validateSnapshot(s, add)/asFinal, plus seeded random walks in that graph and seeded random "
                "candidate sequences on the half-second/ns lattice around day boundaries; distinct = distinct call sequences "
                "with at least one accepted candidate")
    ctx.samples = [[[e["ev"], e.get("s"), e.get("res")] for e in t[1]][:8] for t in traces[:2] + traces[-2:]]
    _validate(ctx, d, "Trace_Rounds19.tla", "Trace_Rounds19_full.cfg", "Trace_Rounds19_monitor.cfg", trace, events, traces,
              "recorded execution of the real CacheRound breaks the round invariant (distinct hashes/timestamps/transactions, "
              "one day, span < gap) or asFinal aborted")
    ctx.assumptions += [
        "timestamps < 2^63 (no uint64 wrap of timestamp + gap); timestamps of the form Base + u*0.5s + e ns, e in {-1,0,1}",
        "the Hash field of a candidate is assigned by the harness independently of its content (the round logic only reads the field)",
        "a candidate's own transaction list has no repeats (checked elsewhere in the kernel)",
    ]
    if ctx.tier == "thorough":
        # growth: how snapshots reach the live round - the chain's final pool and poll loop (spec/Pool, DESIGN.md 13.5.2)
        import pool
        pool.run_pool(ctx)


# ------------------------------------------------------------------------------------- C20
def run_C20(ctx, args):
    quick = ctx.tier == "quick"
    rng = random.Random(ctx.seed)
    d = ctx.specdir("Rounds")
    # ---- E3
    # two driven chains, no bound on the number of operations (complete, deterministic graph) ...
    ctx.tlc_mc(d, "MC_Rounds20.tla", "MC_Rounds20.cfg", workers=8, timeout=2400)
    if not quick:
        # ... and three driven chains, at most 7 operations (the bound is hidden from the VIEW: with several
        # workers the explored set can differ by a few states between runs)
        ctx.tlc_mc(d, "MC_Rounds20.tla", "MC_Rounds20_thorough.cfg", workers=8, timeout=3000)
    for w in ("ReachBackLink", "ReachDummy", "ReachTooEarly"):
        ctx.tlc_mc(d, "MC_Rounds20.tla", "MC_Rounds20_%s.cfg" % w, workers=4, timeout=900, expect_violation=w, count=False)
    ctx.exhaustive = True
    # ---- E1: every edge of the emission family on a real node
    edges = ctx.tlc_edges(d, "MC_Rounds20.tla", "Gen_Rounds20.cfg" if quick else "Gen_Rounds20_thorough.cfg", timeout=2400)
    n_all = len(edges)
    if quick:
        # quick tier: every state-changing edge, and a seeded quarter of the refused (self-loop) edges;
        # the thorough tier replays every edge
        edges = [e for e in edges if e["from"] != e["to"] or rng.random() < 0.25]
    ws = build_walks(edges, rng=rng, n_random=(30 if quick else 400), depth=14, maxlen=120)
    if quick and len(ws) > 260:
        # keep the walks that add a new kind of step (operation, self, reference kind/relation, mode, outcome), then a seeded fill
        def sig(e):
            o, f = e["o"], e["from"]
            x = o["ext"]
            rel = "-"
            if x["k"] == "F":
                head = f["num"][x["c"] - 1] if x["c"] - 1 < len(f["num"]) else 0
                rel = ("own" if x["c"] == o["c"] else "other") + ("<" if x["n"] + 1 < head else "=" if x["n"] + 1 == head else ">")
            return (o["op"], o["self"], x["k"], rel, o["early"], o["fin"], o["strict"], e["ok"], e.get("why"), f["has"][o["c"] - 1],
                    f["late"], x["k"] == "F" and x["n"] > 0 and x["c"] != o["c"])
        order = list(range(len(ws)))
        rng.shuffle(order)
        seen, keep, rest = set(), [], []
        for i in order:
            sg = {sig(e) for e in ws[i]}
            if sg - seen:
                seen |= sg
                keep.append(i)
            else:
                rest.append(i)
        keep += rest[:max(0, 260 - len(keep))]
        ws = [ws[i] for i in sorted(keep)]
    walks = [[e["o"] for e in w] for w in ws]
    ctx.cov["edges_in_model"] = n_all
    ctx.cov["edges_replayed"] = len({json.dumps([e["from"], e["o"]], sort_keys=True) for w in ws for e in w})
    ctx.log("walks: %d covering %d of %d edges" % (len(walks), ctx.cov["edges_replayed"], n_all))
    cases = os.path.join(ctx.scratch, "cases20.json")
    with open(cases, "w") as fh:
        json.dump({"walks": walks}, fh)
    trace = os.path.join(ctx.scratch, "trace20.ndjson")
    ctx.go_harness("kernel", "^TestVerifRounds20$", env={"VERIF_CASES": cases, "VERIF_TRACE": trace}, timeout=2400)
    events = read_ndjson(trace)
    traces = split_traces(events)
    ctx.log("harness done: %d lines" % len(events))
    ops = [e for e in events if e["ev"] == "Op"]
    ctx.evaluations = len(ops)
    ctx.distinct = len({json.dumps([e["o"] for e in t[1] if e["ev"] == "Op"], sort_keys=True) for t in traces
                        if any(e["ev"] == "Op" and e["o"]["op"] != "Add" and e["res"] == "ok" for e in t[1])})
    ctx.cov["accepted_transitions"] = sum(1 for e in ops if e["o"]["op"] != "Add" and e["res"] == "ok")
    ctx.cov["rejected_transitions"] = sum(1 for e in ops if e["o"]["op"] != "Add" and e["res"] != "ok")
    ctx.cov["dummy_starts"] = sum(1 for e in ops if e.get("dummy"))
    why = {}
    for w in ws:
        for e in w:
            if e["o"]["op"] in ("Start", "Update"):
                why[e.get("why", "?")] = why.get(e.get("why", "?"), 0) + 1
    ctx.cov["replayed_steps_by_model_outcome"] = why
    ctx.cov["chain_identifier_references_refused"] = sum(1 for e in ops if e["o"]["op"] != "Add" and e["o"]["ext"]["k"] == "H" and e["res"] == "err")
    ctx.cov["chain_identifier_references_accepted"] = sum(1 for e in ops if e["o"]["op"] != "Add" and e["o"]["ext"]["k"] == "H" and e["res"] == "ok")
    ctx.cov["aborts"] = sum(1 for e in ops if e["res"] == "panic")
    ctx.cov["durable_memory_link_disagreements"] = sum(1 for e in events if e["obs"]["dl"] != e["obs"]["ml"])
    ctx.rule = (("a seeded selection (every kind of step, at most 260 walks) of the edges" if quick else "every edge") +
                " of the exhaustive TLC state graph of MC_Rounds20 (emission family) replayed on a real kernel.Node over a "
                "real BadgerStore with a generated 7-chain genesis (Chain.AddSnapshot, startNewRoundAndPersist, "
                "updateEmptyHeadRoundAndPersist; read back through ReadRound/ReadLink and ChainState), plus seeded random walks; "
                "distinct = distinct operation sequences with at least one accepted transition")
    ctx.samples = [[[e["o"]["op"], e["o"]["c"], e["o"]["ext"], e["res"]] for e in t[1] if e["ev"] == "Op"][:8] for t in traces[:2] + traces[-2:]]
    r = ctx.tlc_trace(d, "Trace_Rounds20.tla", "Trace_Rounds20_full.cfg", trace, timeout=2400)
    out = r["out"]
    if r["accepted"]:
        ctx.traces = len(traces)
        ctx.log("E2 full conformance: %d traces / %d lines accepted" % (len(traces), len(events)))
    else:
        ctx.log("E2 full conformance rejected at line %s (invariant %s); running the property monitor" % (r["line"], r["invariant"]))
        ctx.mismatches.append({"line": r["line"], "invariant": r["invariant"],
                               "event": {kk: vv for kk, vv in events[r["line"] - 1].items() if kk != "obs"}
                               if r["line"] and r["line"] <= len(events) else None})
        r2 = ctx.tlc_trace(d, "Trace_Rounds20.tla", "Trace_Rounds20_monitor.cfg", trace, timeout=2400)
        out = r2["out"]
        if r2["accepted"]:
            ctx.traces = len(traces)
            ctx.notes.append("conformance mismatch not forbidden by this property (see conformance_mismatches)")
        else:
            line = r2["line"] or 1
            bad = traces[-1]
            for first, evs in traces:
                if first <= line < first + len(evs) + 1:
                    bad = (first, evs)
            ctx.traces = sum(1 for first, evs in traces if first + len(evs) <= line)
            idx = line - bad[0]
            ev = events[line - 1] if line <= len(events) else None
            ctx.violation("round transition of the real chain breaks C20 (accepted: number+1, self = hash of the closed round, external = "
                          "known final round of another chain, links never decrease; rejected: chain state unchanged) - monitor %s, "
                          "line %d, operation %s -> %s"
                          % (r2["invariant"] or "no enabled action explains the event", line,
                             json.dumps(ev["o"]) if ev and "o" in ev else "?", ev.get("res") if ev else "?"),
                          {"ops": [e["o"] for e in bad[1][:idx + 1] if e["ev"] == "Op"], "failing_index": idx,
                           "state_before": bad[1][idx - 1]["obs"] if idx >= 1 else None, "failing_event": ev,
                           "invariant": r2["invariant"]})
    ctx.assumptions += [
        "two time eras six hours apart (round n of a chain starts at era base + n*10 s): the 'external reference too early against the "
        "best round' rule and the history window are exercised across the eras only; node set = 7 genesis nodes, no membership change",
        "snapshots are put into head rounds through the real Chain.AddSnapshot with an unverified certificate mask (finalization "
        "checks belong to C09); one snapshot per round",
    ]
    if ctx.tier == "thorough":
        # system level: durable writes of a real multi-node network (spec/Net/Trace_Net.tla)
        import netrace
        netrace.run_net(ctx)
