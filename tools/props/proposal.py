"""C24 — retiring a local proposal never loses a pending transaction (spec/Proposal).

E3  MC_Proposal: decision table = every well-formed pre-state of a family (installed proposals over
    three overlapping transactions, timestamps around ts + gap, commitment/response counts around
    the threshold, verifier-map owners, body/finalization/cache classes) x every retirement step
    (expiry, retry, round reset, announcement deferral, duplicate guard of a batched announcement). The specification satisfies the property
    everywhere; the variant in which a retry requeues every transaction of the retired proposal
    (the behaviour before repair a97b75a) violates it (non-vacuity witness).
E1  TLC-emitted cases built on a real node (SetupNode over a real BadgerStore; Chain maps as the
    repository's tests build them) and executed by the real expireCosiAggregators /
    retryCosiSnapshot / resetCosiStateForNewRound / prepareAnnouncement.
E2  recorded pre/post projections (maps, stores, one real CacheRetrieveTransactions(255) as the
    last step) judged by TLC against Trace_Proposal (full conformance + monitor, then monitor)."""
import json, os, random

PROPS = ["C24"]
from vlib import read_ndjson, Infra



def run(ctx, args):
    quick = ctx.tier == "quick"
    rng = random.Random(ctx.seed)
    d = ctx.specdir("Proposal")
    fams = ["two"] if quick else ["two", "three"]
    from concurrent.futures import ThreadPoolExecutor
    with ThreadPoolExecutor(max_workers=8) as ex:
        # one TLC run per family checks the decision table (invariants PropertyHolds, OrderFree) AND
        # emits its cases
        fe = [ex.submit(ctx.tlc_edges, d, "MC_Proposal.tla", "Gen_Proposal_%s.cfg" % f, timeout=2400, tag="CASE ")
              for f in fams]
        fs = [ex.submit(ctx.tlc_mc, d, "MC_Proposal.tla", "MC_Proposal_%s.cfg" % w, workers=1, timeout=600,
                        expect_violation=w, count=False) for w in ("RequeueAllBreaks", "ReachRequeued", "ReachOwnedKept", "ReachPartialExpires", "ReachGuardedFirst")]
        for f in fs:
            f.result()
        fam_cases = []
        for f in fe:      # the constraint is evaluated for the initial state and its stuttering successor
            seen, cs = set(), []
            for c in f.result():
                k = json.dumps(c, sort_keys=True)
                if k not in seen:
                    seen.add(k)
                    cs.append(c)
            fam_cases.append(cs)
            ctx.states += len(cs)
            ctx.transitions += len(cs)
    ctx.exhaustive = True
    ctx.cov["witnesses_reached"] = ["RequeueAllBreaks (a retry that requeues every transaction violates StepOK)",
                                    "ReachRequeued", "ReachOwnedKept", "ReachPartialExpires", "ReachGuardedFirst"]
    # ---- E1: quick = seeded sample of the two-proposal family; thorough = all of it + a sample of the
    # three-proposal family
    cases = []
    total = sum(len(x) for x in fam_cases)
    if quick:
        cs = fam_cases[0]
        n = min(len(cs), 6000)
        cases = rng.sample(cs, n)
    else:
        cases = list(fam_cases[0])
        cs = fam_cases[1]
        cases += rng.sample(cs, min(len(cs), 60000))
    ctx.log("cases: %d of %d emitted" % (len(cases), total))
    cpath = os.path.join(ctx.scratch, "cases.json")
    with open(cpath, "w") as fh:
        json.dump(cases, fh)
    trace = os.path.join(ctx.scratch, "trace.ndjson")
    ctx.go_harness("kernel", "^TestVerifProposalCases$", env={"VERIF_CASES": cpath, "VERIF_TRACE": trace}, timeout=2400)
    events = read_ndjson(trace)
    if len(events) != len(cases):
        raise Infra("harness recorded %d of %d cases" % (len(events), len(cases)))
    ctx.evaluations = len(events)
    ctx.distinct = len({json.dumps([e["pre"], e["o"]], sort_keys=True) for e in events})
    nreq = sum(1 for e in events if any(not e["pre"]["queued"][t] for t in e["post"]["queue"] if t in e["pre"]["queued"]))
    ctx.cov["cases_emitted_by_tlc"] = total
    ctx.cov["cases_where_the_step_requeued_something"] = nreq
    ctx.cov["by_step"] = {op: sum(1 for e in events if e["o"]["op"] == op) for op in ("Expire", "Retry", "Reset", "Defer", "Announce")}
    ctx.rule = ("TLC-enumerated (pre-state, retirement step) cases of spec/Proposal executed on a real node; distinct = "
                "distinct (observed pre-state, step) pairs; quick: seeded sample of the two-proposal family, thorough: "
                "all of it plus a seeded sample of the three-proposal family")
    ctx.samples = [{"pre": e["pre"], "o": e["o"], "queue": e["post"]["queue"]} for e in events[:2]]
    validate(ctx, d, trace, events)
    ctx.assumptions += [
        "pre-states are constructed directly in the Chain maps (as the repository's tests do), not reached through the CoSi handlers",
        "a proposal deferred by prepareAnnouncement is explored only with transactions no installed proposal guards; batches "
        "with a guarded member are driven through the duplicate guard of cosiSendAnnouncement (guarded member at every position)",
        "deferral paths exercised: chain state missing, timestamp not after the cache round, after the round cut-off",
        "time is explored in units of SnapshotRoundGap/2 (exact equality with ts + gap included)",
    ]
    if ctx.tier == "thorough":
        # system level: the CoSi exchange of a real multi-node network (spec/Net/Trace_Cosi.tla, monitor C24)
        import cosinet
        cosinet.run_cosinet(ctx)


def validate(ctx, d, trace, events):
    r = ctx.tlc_trace(d, "Trace_Proposal.tla", "Trace_Proposal_full.cfg", trace, timeout=2400)
    if r["accepted"]:
        ctx.traces = len(events)
        ctx.log("E2 full conformance + monitor: %d recorded cases accepted" % len(events))
        return
    ctx.log("E2 full pass rejected at line %s; running the property monitor alone" % r["line"])
    r2 = ctx.tlc_trace(d, "Trace_Proposal.tla", "Trace_Proposal_C24.cfg", trace, timeout=2400)
    if r2["accepted"]:
        ctx.traces = len(events)
        ctx.mismatches.append({"line": r["line"], "event": events[r["line"] - 1] if r["line"] and r["line"] <= len(events) else None})
        ctx.notes.append("conformance mismatch not forbidden by this property (see conformance_mismatches)")
        return
    line = r2["line"] or 1
    ctx.traces = line - 1
    ev = events[line - 1] if line <= len(events) else None
    ctx.violation("a retirement step executed on the real node breaks C24 (Proposal!StepOK: a pending transaction of the "
                  "retired proposal is not eligible afterwards, or a transaction owned by a still-active proposal was "
                  "re-queued); case %d: step %s" % (line, json.dumps(ev["o"]) if ev else "?"),
                  {"case": ev, "how": "VERIF_SEED=%d python3 tools/vcheck.py C24 --tier %s" % (ctx.seed, ctx.tier)})
