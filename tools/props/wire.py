"""C06 C07 C08 C30 — wire grammars (spec/Wire).

Every check follows the decision-table pattern of BUILDER_GUIDE section 5:
  E3/E1  TLC enumerates shapes x structured mutations (MC_Wire*.tla), checks the design-level theorems
         of the grammar on every case and prints the cases;
  E1     the in-package Go harness concretizes every case into real bytes (real encoder, then the
         mutation on the bytes), runs the real decoder / verifier and records what it observed;
  E2     TLC judges every recorded event against Trace_Wire*.tla: first the full conformance pass (the
         real outcome is the grammar's outcome), then, if that is rejected, the property monitor.
"""
import json, os, random, re

PROPS = ["C06", "C07", "C08", "C30"]
from vlib import read_ndjson, Infra, VERIF


# ------------------------------------------------------------------------------------------ common
def _known_cfg(ctx, d, cfg):
    """Write the ids of the listed known findings of this property into the trace cfg."""
    ids = sorted(k["id"] for k in ctx.known())
    p = os.path.join(d, cfg)
    txt = open(p).read()
    txt = re.sub(r"KnownIds = \{[^}]*\}", "KnownIds = {%s}" % ", ".join('"%s"' % i for i in ids), txt)
    open(p, "w").write(txt)
    return ids


def _note_known(ctx, out):
    reached = set(re.findall(r'"KNOWN-REACHED", "([^"]+)"', out))
    texts = {k["id"]: k.get("text", "") for k in ctx.known()}
    for i in sorted(reached):
        s = "%s %s" % (i, texts.get(i, ""))
        if s not in ctx.known_reached:
            ctx.known_reached.append(s)


def _load_inputs(path):
    m = {}
    if os.path.exists(path):
        for line in open(path):
            a, _, b = line.strip().partition(" ")
            if a.isdigit():
                m[int(a)] = b
    return m


def _chunks(ctx, trace, events, k):
    """Split a stateless trace into k files that can be validated independently: the leading
    "Shape" lines (which later lines reference by line number) are repeated in every file.
    Returns [(path, head_len, global_index_of_first_event_line)]."""
    head = 0
    while head < len(events) and events[head].get("ev") == "Shape":
        head += 1
    body = len(events) - head
    if k <= 1 or body < 400:
        return [(trace, head, head)]
    lines = open(trace).read().splitlines()
    out, per = [], (body + k - 1) // k
    for c in range(k):
        lo, hi = head + c * per, min(head + (c + 1) * per, len(events))
        if lo >= hi:
            break
        path = "%s.part%d" % (trace, c)
        with open(path, "w") as fh:
            fh.write("\n".join(lines[:head] + lines[lo:hi]) + "\n")
        out.append((path, head, lo))
    return out


def _run_chunks(ctx, d, tla, cfg, chunks):
    """Validate the chunks concurrently (one single-worker TLC each: the high-water register of
    TraceLib needs -workers 1). Returns (all accepted, first rejected global line, bad global lines, outputs)."""
    from concurrent.futures import ThreadPoolExecutor
    with ThreadPoolExecutor(max_workers=len(chunks)) as ex:
        rs = list(ex.map(lambda c: ctx.tlc_trace(d, tla, cfg, c[0], timeout=1500, xss=True), chunks))
    ok, first, bad, outs = True, None, [], []
    for (path, head, lo), r in zip(chunks, rs):
        outs.append(r["out"])
        to_global = lambda n: n if n <= head else lo + (n - head)      # 1-based chunk line -> 1-based trace line
        if not r["accepted"]:
            ok = False
            g = to_global(r["line"] or head + 1)
            first = g if first is None else min(first, g)
        bad += [to_global(int(x)) for x in re.findall(r'"BAD-EVENT", (\d+)', r["out"])]
    return ok, first, sorted(set(bad)), outs


def _validate(ctx, d, tla, stem, trace, events, replay_base, what, parallel=4):
    """Two-pass validation of a stateless trace (every event is judged on its own, so the trace
    is validated in independent chunks). Every violating event is reported (up to 5)."""
    for cfg in (stem + "_full.cfg", stem + "_monitor.cfg"):
        _known_cfg(ctx, d, cfg)
    chunks = _chunks(ctx, trace, events, parallel if len(events) > 30000 else 1)
    ok, first, _, outs = _run_chunks(ctx, d, tla, stem + "_full.cfg", chunks)
    for o in outs:
        _note_known(ctx, o)
    if ok:
        ctx.traces = len(events)
        ctx.log("E2 full conformance: %d recorded events accepted" % len(events))
        return
    ev = events[first - 1] if first and first <= len(events) else None
    ctx.log("E2 full conformance rejected at line %s; running the property monitor" % first)
    ctx.mismatches.append({"line": first, "event": ev})
    # monitor pass: TLC evaluates the property's implications on every event and reports every
    # event that violates them (BAD-EVENT lines); its post-condition rejects the trace if any
    inputs = _load_inputs(replay_base.get("inputs_file", ""))
    ok2, first2, bad_lines, outs2 = _run_chunks(ctx, d, tla, stem + "_monitor.cfg", chunks)
    for o in outs2:
        _note_known(ctx, o)
    if ok2:
        ctx.traces = len(events)
        ctx.notes.append("conformance mismatch not forbidden by this property (see conformance_mismatches)")
        return
    bad_lines = bad_lines or [first2 or 1]
    ctx.cov["violating_events"] = len(bad_lines)
    for line in bad_lines[:5]:
        bad = events[line - 1] if line <= len(events) else None
        rep = dict(replay_base)
        rep.pop("inputs_file", None)
        rep.update({"event": bad, "only": bad.get("idx") if bad else None})
        if bad is not None and bad.get("idx") in inputs:
            rep["input_hex"] = inputs[bad["idx"]]
        ctx.violation("%s (trace line %d of %d violating): %s" % (what, line, len(bad_lines), json.dumps(bad)[:700]), rep)
    ctx.traces = len(events) - len(bad_lines)


def _cases(ctx, d, tla, cfg, timeout=1500, workers=6, xss=False):
    """E3 + E1 in one TLC run: the design-level theorems are invariants checked on every case and
    every case is printed (CONSTRAINT EmitCase). Like vlib.tlc_edges, but with several workers: the
    decision tables have one initial state per shape and the cases are its successors, each case is
    printed by one println, so the order of the lines is irrelevant (they are sorted afterwards)."""
    rc, out = ctx._tlc(d, tla, cfg, workers, (), timeout, xss=xss)
    if "Error:" in out or rc != 0:
        raise Infra("design-level TLC run %s/%s did not pass (model problem, not a verdict on the code):\n%s"
                    % (tla, cfg, out[-3000:]))
    cs, seen = [], set()
    for line in out.splitlines():
        line = line.strip()
        if line.startswith('"CASE ') and line not in seen:       # a state constraint may be evaluated twice
            seen.add(line)
            cs.append(json.loads(json.loads(line)[5:]))
    gen, dist = ctx._stats(out)
    if len(cs) > dist or len(cs) == 0:
        raise Infra("case emission of %s/%s inconsistent: %d lines, %d states" % (tla, cfg, len(cs), dist))
    ctx.states += dist
    ctx.transitions += gen
    ctx.log("E3+E1 %s/%s: %d states checked, %d cases emitted" % (tla, cfg, dist, len(cs)))
    return cs


def _witness(ctx, d, tla, cfgs):
    for cfg, inv in cfgs:
        ctx.tlc_mc(d, tla, cfg, workers=2, timeout=600, expect_violation=inv, count=False)


def _replay_only(ctx, args):
    """--replay <file>: re-run only the recorded event (same cfg, seed, tier => same case list and
    the same derived randomness) and judge it again."""
    if getattr(args, "replay", None):
        with open(args.replay) as fh:
            doc = json.load(fh)
        ctx.tier = doc.get("tier", ctx.tier)
        ctx.seed = doc["replay"].get("seed", doc.get("seed", ctx.seed))
        return doc["replay"]
    return None


# ------------------------------------------------------------------------------------------ C07
def run_C07(ctx, args):
    rep = _replay_only(ctx, args)
    quick = ctx.tier == "quick"
    d = ctx.specdir("Wire")
    tier_cfg = rep["cfg"] if rep else ("Gen_WireSnapshot_%s.cfg" % ctx.tier)
    if not rep and not quick:
        _witness(ctx, d, "MC_WireSnapshot.tla",
                 [("MC_WireSnapshot_wit_%s.cfg" % w, w) for w in ("NoMutatedAccept", "NoPartialSuffix", "NoAny")])
    emitted = _cases(ctx, d, "MC_WireSnapshot.tla", tier_cfg)
    ctx.exhaustive = True
    lens = {json.dumps(c["shape"], sort_keys=True): c["lens"] for c in emitted if c["kind"] == "shape"}
    cases = []
    for c in emitted:
        if c["kind"] == "shape":
            continue
        c = dict(c)
        c["lens"] = lens[json.dumps(c["shape"], sort_keys=True)]
        cases.append(c)
    cases.sort(key=lambda c: json.dumps(c, sort_keys=True))      # order independent of TLC's enumeration
    blind = 2000 if quick else 150000
    reps = 1 if quick else 2
    cfile = os.path.join(ctx.scratch, "snap_cases.json")
    with open(cfile, "w") as fh:
        json.dump({"cases": cases, "blind": blind, "reps": reps, "only": rep["only"] if rep else 0}, fh)
    trace = os.path.join(ctx.scratch, "snap_trace.ndjson")
    inputs = os.path.join(ctx.scratch, "snap_inputs.txt")
    ctx.go_harness("common", "^TestVerifWireSnapshot$",
                   env={"VERIF_CASES": cfile, "VERIF_TRACE": trace, "VERIF_INPUTS": inputs})
    events = read_ndjson(trace)
    ctx.evaluations = len(events)
    ctx.distinct = len({json.dumps([e.get("case"), e.get("f"), e.get("shape")], sort_keys=True)
                        for e in events if e.get("src") != "blind"}) + \
        sum(1 for e in events if e.get("src") == "blind" and e["res"] == "ok")
    ctx.rule = ("one event per TLC-enumerated case (snapshot shape x structured mutation of its real encoding, "
                "or shape x perturbed field for the hash) executed on the real codec; distinct = distinct cases "
                "+ seeded byte strings the real decoder accepted")
    ctx.cov["cases"] = len(cases)
    ctx.cov["blind_inputs"] = blind
    ctx.cov["accepted_by_decoder"] = sum(1 for e in events if e.get("res") == "ok" and e["ev"] == "Dec")
    ctx.samples = [{k: e[k] for k in ("case", "res", "in_len", "eq_full", "eq_short") if k in e}
                   for e in events[:3] + events[len(cases) // 2: len(cases) // 2 + 2]]
    _validate(ctx, d, "Trace_WireSnapshot.tla", "Trace_WireSnapshot", trace, events,
              {"cfg": tier_cfg, "seed": ctx.seed, "inputs_file": inputs, "harness": "common/TestVerifWireSnapshot"},
              "the real snapshot codec contradicts C07")
    ctx.assumptions += [
        "BLAKE3 is collision resistant (the specification treats the hash as an injective function of the payload encoding)",
        "arbitrary byte strings are covered by the enumerated structured mutations plus seeded samples, not exhaustively",
        "only snapshot version 2 exists in the code, so 'the hash changes with the version' is checked at design level only",
    ]


# ------------------------------------------------------------------------------------------ C06
def run_C06(ctx, args):
    rep = _replay_only(ctx, args)
    quick = ctx.tier == "quick"
    d = ctx.specdir("Wire")
    tier_cfg = rep["cfg"] if rep else ("Gen_WireTx_%s.cfg" % ctx.tier)
    if not rep and not quick:
        _witness(ctx, d, "MC_WireTx.tla",
                 [("MC_WireTx_wit_%s.cfg" % w, w) for w in ("NoMutatedAccept", "NoNonMinReject", "NoReplReject", "NoAny")])
    emitted = _cases(ctx, d, "MC_WireTx.tla", tier_cfg, xss=True)      # lists of 256 items: recursion depth
    ctx.exhaustive = True
    key = lambda s: json.dumps(s, sort_keys=True)
    shapes = sorted((c for c in emitted if c["kind"] == "shape"), key=lambda c: key(c["shape"]))
    sid = {key(c["shape"]): i for i, c in enumerate(shapes)}
    cases = []
    for c in emitted:
        if c["kind"] == "shape":
            continue
        e = {"kind": c["kind"], "sid": sid[key(c["shape"])]}
        if c["kind"] == "dec":
            e.update({"mut": c["mut"], "mut2": c["mut2"]})
        else:
            e.update({"f": c["f"], "shape2": c["shape2"]})
        cases.append(e)
    cases.sort(key=key)
    valid = 600 if quick else 60000
    blind = 1500 if quick else 150000
    reps = 1 if quick else 2
    cfile = os.path.join(ctx.scratch, "tx_cases.json")
    with open(cfile, "w") as fh:
        json.dump({"shapes": [{"shape": c["shape"], "lens": c["lens"]} for c in shapes], "cases": cases,
                   "valid": valid, "blind": blind, "reps": reps, "only": rep["only"] if rep else 0}, fh)
    trace = os.path.join(ctx.scratch, "tx_trace.ndjson")
    inputs = os.path.join(ctx.scratch, "tx_inputs.txt")
    ctx.go_harness("common", "^TestVerifWireTx$",
                   env={"VERIF_CASES": cfile, "VERIF_TRACE": trace, "VERIF_INPUTS": inputs})
    events = read_ndjson(trace)
    evs = [e for e in events if e["ev"] != "Shape"]
    ctx.evaluations = len(evs)
    ctx.distinct = len(cases) + sum(1 for e in evs if e.get("src") in ("valid", "blind") and e.get("res") == "ok")
    ctx.rule = ("one event per TLC-enumerated case (transaction structure x one or two structured mutations of its "
                "real encoding, or structure x one perturbed field for the hash) executed on the real codec; "
                "distinct = enumerated cases + seeded valid transactions / byte strings the real decoder accepted")
    ctx.cov["cases"] = len(cases)
    ctx.cov["shapes"] = len(shapes)
    ctx.cov["seeded_valid"] = valid
    ctx.cov["blind_inputs"] = blind
    ctx.cov["accepted_by_decoder"] = sum(1 for e in evs if e.get("res") == "ok" and e["ev"] == "Dec")
    ctx.cov["mutated_inputs_accepted"] = sum(1 for e in evs if e.get("res") == "ok" and e["ev"] == "Dec"
                                             and (e.get("src") == "blind" or e["mut"]["op"] != "None"))
    ctx.samples = [{k: e[k] for k in ("src", "mut", "mut2", "res", "in_len", "reenc_eq", "f", "hash_eq") if k in e}
                   for e in evs[:3] + evs[len(cases) // 2: len(cases) // 2 + 3]]
    _validate(ctx, d, "Trace_WireTx.tla", "Trace_WireTx", trace, events,
              {"cfg": tier_cfg, "seed": ctx.seed, "inputs_file": inputs, "harness": "common/TestVerifWireTx"},
              "the real transaction codec contradicts C06")
    ctx.assumptions += [
        "BLAKE3 is collision resistant (the specification treats the hash as an injective function of the payload encoding)",
        "arbitrary byte strings are covered by the enumerated structured mutations plus seeded samples, not exhaustively",
        "amounts are naturals (common.Integer never holds a negative value)",
    ]


# ------------------------------------------------------------------------------------------ C08
def run_C08(ctx, args):
    rep = _replay_only(ctx, args)
    quick = ctx.tier == "quick"
    d = ctx.specdir("Wire")
    tier_cfg = rep["cfg"] if rep else ("Gen_WireP2P_%s.cfg" % ctx.tier)
    if not rep and not quick:
        _witness(ctx, d, "MC_WireP2P.tla",
                 [("MC_WireP2P_wit_%s.cfg" % w, w) for w in ("NoPointReject", "NoMutatedAccept", "NoSmallest")])
    emitted = _cases(ctx, d, "MC_WireP2P.tla", tier_cfg)
    ctx.exhaustive = True
    key = lambda s: json.dumps(s, sort_keys=True)
    shapes = sorted((c for c in emitted if c["kind"] == "shape"), key=lambda c: key(c["shape"]))
    sid = {key(c["shape"]): i for i, c in enumerate(shapes)}
    cases = sorted(({"sid": sid[key(c["shape"])], "mut": c["mut"]} for c in emitted if c["kind"] == "msg"), key=key)
    blind = 3000 if quick else 300000
    reps = 1 if quick else 2
    cfile = os.path.join(ctx.scratch, "p2p_cases.json")
    with open(cfile, "w") as fh:
        json.dump({"shapes": [{"shape": c["shape"], "lens": c["lens"]} for c in shapes], "cases": cases,
                   "blind": blind, "reps": reps, "only": rep["only"] if rep else 0}, fh)
    trace = os.path.join(ctx.scratch, "p2p_trace.ndjson")
    ctx.go_harness("p2p", "^TestVerifWireP2P$", env={"VERIF_CASES": cfile, "VERIF_TRACE": trace})
    events = read_ndjson(trace)
    evs = [e for e in events if e["ev"] != "Shape"]
    ctx.evaluations = len(evs)
    ctx.distinct = len(cases) + sum(1 for e in evs if e.get("src") == "blind" and e.get("res") == "ok")
    ctx.rule = ("one event per TLC-enumerated case (builder x input classes x one structured mutation of the built "
                "message) executed on the real build*Message / parseNetworkMessage; distinct = enumerated cases + "
                "seeded byte strings the real parser accepted")
    ctx.cov["cases"] = len(cases)
    ctx.cov["builder_shapes"] = len(shapes)
    ctx.cov["blind_inputs"] = blind
    ctx.cov["accepted_by_parser"] = sum(1 for e in evs if e.get("res") == "ok")
    ctx.cov["invalid_point_cases"] = sum(1 for e in evs if e.get("mut", {}).get("op") == "Point")
    ctx.samples = [{k: e[k] for k in ("src", "sline", "mut", "res", "ptype", "fields_eq", "points_valid") if k in e}
                   for e in evs[:2] + evs[len(cases) // 2: len(cases) // 2 + 3]]
    _validate(ctx, d, "Trace_WireP2P.tla", "Trace_WireP2P", trace, events,
              {"cfg": tier_cfg, "seed": ctx.seed, "harness": "p2p/TestVerifWireP2P"},
              "the real peer message codec contradicts C08")
    ctx.assumptions += [
        "arbitrary byte strings are covered by the enumerated structured mutations plus seeded samples, not exhaustively",
        "embedded snapshots and transactions are atomic tokens here; their own grammars are checked by C07 and C06",
        "invalid points are built with filippo.io/edwards25519 (off curve, torsion, valid + torsion); validity of the parsed "
        "fields is observed with the harness's own prime-order test on that library, not with crypto.Key.CheckKey",
    ]


# ------------------------------------------------------------------------------------------ C30
def run_C30(ctx, args):
    rep = _replay_only(ctx, args)
    quick = ctx.tier == "quick"
    d = ctx.specdir("Wire")
    tier_cfg = rep["cfg"] if rep else ("Gen_WireAuth_%s.cfg" % ctx.tier)
    if not rep and not quick:
        _witness(ctx, d, "MC_WireAuth.tla",
                 [("MC_WireAuth_wit_%s.cfg" % w, w) for w in ("NoAccept", "NoBoundaryAccept", "NoStaleReject")])
    cases = _cases(ctx, d, "MC_WireAuth.tla", tier_cfg, workers=4)
    ctx.exhaustive = True
    for c in cases:
        c.pop("exp", None)
    cases.sort(key=lambda c: json.dumps(c, sort_keys=True))
    blind = 2000 if quick else 100000
    reps = 1 if quick else 3
    cfile = os.path.join(ctx.scratch, "auth_cases.json")
    with open(cfile, "w") as fh:
        json.dump({"cases": cases, "blind": blind, "reps": reps, "only": rep["only"] if rep else 0}, fh)
    trace = os.path.join(ctx.scratch, "auth_trace.ndjson")
    ctx.go_harness("kernel", "^TestVerifWireAuth$", env={"VERIF_CASES": cfile, "VERIF_TRACE": trace})
    events = read_ndjson(trace)
    ctx.evaluations = len(events)
    ctx.distinct = len({json.dumps(e["case"], sort_keys=True) for e in events if e["src"] == "case"}) + \
        sum(1 for e in events if e["src"] == "blind" and e["res"] == "ok")
    ctx.rule = ("one event per TLC-enumerated case (deviation class x clock difference x timeout argument) concretized "
                "with real Ed25519 keys and executed on the real AuthenticateAs (builder cases through the real "
                "BuildAuthenticationMessage and the mock clock); distinct = enumerated cases + seeded mutated messages "
                "that were accepted")
    ctx.cov["cases"] = len(cases)
    ctx.cov["blind_inputs"] = blind
    ctx.cov["accepted"] = sum(1 for e in events if e["res"] == "ok")
    ctx.cov["accepted_at_timeout_boundary"] = sum(1 for e in events if e["res"] == "ok" and e["timeout"] > 0
                                                  and abs(e["skew"]) == e["timeout"])
    ctx.samples = [{k: e[k] for k in ("case", "res", "skew", "timeout", "sig_valid") if k in e} for e in events[:3]]
    _validate(ctx, d, "Trace_WireAuth.tla", "Trace_WireAuth", trace, events,
              {"cfg": tier_cfg, "seed": ctx.seed, "harness": "kernel/TestVerifWireAuth"},
              "the real AuthenticateAs contradicts C30")
    ctx.assumptions += [
        "Ed25519 is unforgeable: forged shapes (wrong key, changed field, flipped bit, random bytes) are observed, "
        "the absence of any forgery is assumed",
        "signature validity, recipient match and the derived identity are observed on the message bytes with "
        "crypto.Key.Verify / common.Address.Hash independently of AuthenticateAs",
    ]
