"""Chain pools and the poll loop of kernel/chain.go (growth of the specification, DESIGN.md 13.5.2).

spec/Pool/Pool.tla specifies FinalPool / FinalIndex / finalActionsRing / CachePool, appendFinalSnapshot,
AppendFinalSnapshot, AppendCosiAction, the poll goroutine QueuePollSnapshots step by step and the
interplay with the chain's head round. run_pool(ctx) is called from the thorough tier of C19
(tools/props/rounds.py):
  E3  MC_Pool.tla: exhaustive bounded models + non-vacuity witnesses + a liveness statement
  E1  every edge of the emission family (Gen_Pool_A), seeded simulated behaviours of two larger
      families (Gen_Pool_B, Gen_Pool_C) and directed histories at the code's real constants are
      executed on a real kernel.Chain of a real kernel.Node (harness TestVerifPool)
  E2  Trace_Pool.tla validates every recorded event: full conformance, then the pool monitor
      (statements of Pool.tla on the observations; a reject is a conformance mismatch, exit 0,
      because C19's text does not imply them), then the C19 monitor (the live round fed by the
      pool holds no snapshot twice; a reject is a C19 violation).
"""
import json, os, random, sys
from concurrent.futures import ThreadPoolExecutor

PROPS = []
sys.path.insert(0, os.path.dirname(os.path.dirname(os.path.abspath(__file__))))
from vlib import build_walks, read_ndjson, split_traces, Infra

REAL_K = 800          # kernel.FinalPoolSlotsLimit
REAL_SIZE = 1024      # kernel.FinalPoolRoundSizeLimit
REAL_CACHE = 256      # kernel.CachePoolSnapshotsLimit
H0 = 1                # head round of a genesis chain

WITNESSES = ["ReachPoolAdvance", "ReachSlotReuse", "ReachFar", "ReachExpired", "ReachPeerLimit", "ReachMissingTx",
             "ReachSecondPeerHandover", "ReachWritten3", "ReachAdvanceBadCert", "ReachFork", "ReachSizeErr",
             "ReachRingFull", "ReachDropped", "ReachRetry"]


def model(ctx, d):
    """E3. The three groups run side by side (the two large models dominate the wall time)."""
    def big_a():
        return {"A": ctx.tlc_mc(d, "MC_Pool.tla", "MC_Pool_A.cfg", workers=8, timeout=2400, count=False)}

    def big_b():
        return {"B": ctx.tlc_mc(d, "MC_Pool.tla", "MC_Pool_B.cfg", workers=6, timeout=2400, count=False)}

    def small():
        r = {}
        r["ring"] = ctx.tlc_mc(d, "MC_Pool.tla", "MC_Pool_ring.cfg", workers=2, timeout=1200, count=False)
        r["live"] = ctx.tlc_mc(d, "MC_Pool.tla", "MC_Pool_live.cfg", workers=2, timeout=1200, count=False)
        # appendFinalSnapshot with its two reads (FinalIndex, then the head round) as separate steps, rounds fed through the pool
        r["split"] = ctx.tlc_mc(d, "MC_Pool.tla", "MC_Pool_split.cfg", workers=2, timeout=1200, count=False)
        # the live round also fed without the pool (own chain / restart), atomic reads
        r["selffeed"] = ctx.tlc_mc(d, "MC_Pool.tla", "MC_Pool_selffeed.cfg", workers=2, timeout=1200, count=False)
        for w in WITNESSES:
            ctx.tlc_mc(d, "MC_Pool.tla", "MC_Pool_w_%s.cfg" % w, workers=2, timeout=900, expect_violation=w, count=False)
        # both together: a snapshot can be put into the slot of the previous round (statement SlotPure fails) - the
        # observation reported in DESIGN.md 13.5.2
        ctx.tlc_mc(d, "MC_Pool.tla", "MC_Pool_w_Misplaced.cfg", workers=2, timeout=900, expect_violation="Inv", count=False)
        return r

    with ThreadPoolExecutor(max_workers=3) as ex:
        futs = [ex.submit(f) for f in (big_a, big_b, small)]
        r = {}
        for f in futs:
            r.update(f.result())
    for v in r.values():
        ctx.states += v["distinct"]
        ctx.transitions += v["generated"]
    return {k: v["distinct"] for k, v in r.items()}


def real_universe(u, kmodel):
    """Model rounds -> real rounds so that the model's window and slot arithmetic (K = kmodel) coincides with the
    code's (K = 800): rounds closer than kmodel - 1 to the first head keep their number, the others move up by
    800 - kmodel (the last admitted round of the first window becomes head + 799, the first refused one head + 800,
    the round that reuses the slot of the first head round becomes head + 800 as well)."""
    out = []
    for x in u:
        r = x["round"]
        near = r - H0 < kmodel - 1
        rr = r if near else r + REAL_K - kmodel
        kind = x["kind"]
        if kind == "bad" and not (near and r >= H0 and (x["closes"] or r == H0)):
            kind = "decoy"
        out.append({"round": rr, "kind": kind, "closes": list(x["closes"])})
    return out


def ops_of(walk):
    return [{"op": e["o"]["op"], "p": e["o"]["p"], "s": e["o"]["s"]} for e in walk]


def directed():
    """Histories at the code's real constants."""
    D = lambda p, s: {"op": "Deliver", "p": p, "s": s}
    P = {"op": "P", "p": 0, "s": 0}
    T = lambda s: {"op": "Tx", "p": 0, "s": s}
    out = []
    # round-size limit: 1024 snapshots of one round, the 1025th is refused with an error, so is a repeat
    n = REAL_SIZE + 2
    out.append({"tag": "size-limit", "u": [{"round": H0 + 5, "kind": "decoy", "closes": []} for _ in range(n)],
                "ops": [D(1 + i % 3, i + 1) for i in range(n)] + [D(4, 1), D(1, 1), D(1, REAL_SIZE)]})
    # ring capacity
    out.append({"tag": "ring-full", "u": [{"round": H0, "kind": "good", "closes": []}],
                "ops": [{"op": "Recv", "p": 1, "s": 1}] * (REAL_K + 1) + [{"op": "Consume", "p": 0, "s": 0}] * 3
                       + [{"op": "Recv", "p": 2, "s": 1}, P, T(1), P, P]})
    # cache pool capacity and drain
    C = {"op": "Cosi", "p": 0, "s": 0}
    out.append({"tag": "cache-full", "u": [{"round": H0, "kind": "good", "closes": []}],
                "ops": [C] * (REAL_CACHE + 1) + [D(1, 1), P, P, C, P, T(1), C, C, P]})
    # peer limit 3: five peers offer the same snapshot; three handovers per iteration while the transaction is missing
    out.append({"tag": "peer-limit", "u": [{"round": H0, "kind": "good", "closes": []}, {"round": H0, "kind": "bad", "closes": []}],
                "ops": [D(1, 1), D(2, 1), D(2, 1), D(3, 1), D(4, 1), D(5, 1), D(1, 1), D(5, 2), D(4, 2), D(3, 2), D(2, 2),
                        P, P, P, P, P, P, P, T(1), P, P, P, D(5, 1), P]})
    # admission window and slot reuse at K = 800 while the head moves over three rounds
    u = [{"round": 1, "kind": "good", "closes": []}, {"round": 2, "kind": "good", "closes": [1]},
         {"round": 3, "kind": "good", "closes": [2]}, {"round": 4, "kind": "good", "closes": [3]},
         {"round": 0, "kind": "decoy", "closes": []}, {"round": 799, "kind": "decoy", "closes": []},
         {"round": 800, "kind": "decoy", "closes": []}, {"round": 801, "kind": "decoy", "closes": []},
         {"round": 802, "kind": "decoy", "closes": []}, {"round": 803, "kind": "decoy", "closes": []},
         {"round": 1600, "kind": "decoy", "closes": []}, {"round": 1601, "kind": "decoy", "closes": []}]
    every = [D(1, s) for s in range(1, len(u) + 1)]
    ops = every + [T(1), T(2), T(3), T(4)]
    for _ in range(4):
        ops += [P, P, P] + every + [D(2, s) for s in (1, 2, 3, 4)]
    ops += [P, P, {"op": "ExtAdv", "p": 0, "s": 0}] + every + [P]
    out.append({"tag": "window", "u": u, "ops": ops})
    return out


def chunks_of(traces, n):
    """Split recorded executions (each starts with Reset) into about n files of similar size."""
    total = sum(len(evs) for _, evs in traces)
    target = max(1, total // n)
    parts, cur, size = [], [], 0
    for tr in traces:
        cur.append(tr)
        size += len(tr[1])
        if size >= target:
            parts.append(cur)
            cur, size = [], 0
    if cur:
        parts.append(cur)
    return parts


def validate(ctx, d, traces, workers=6):
    parts = chunks_of(traces, workers * 2)
    files = []
    for i, part in enumerate(parts):
        p = os.path.join(ctx.scratch, "pool_chunk_%d.ndjson" % i)
        with open(p, "w") as fh:
            for _, evs in part:
                for e in evs:
                    fh.write(json.dumps(e) + "\n")
        files.append((part, p))

    def one(item):
        part, p = item
        return item, ctx.tlc_trace(d, "Trace_Pool.tla", "Trace_Pool_full.cfg", p, timeout=2400, xss=True)

    with ThreadPoolExecutor(max_workers=workers) as ex:
        results = list(ex.map(one, files))
    accepted = 0
    verdict = {"full_rejected": 0, "monitor_rejected": 0, "c19_rejected": 0}
    for (part, p), r in results:
        if r["accepted"]:
            accepted += len(part)
            continue
        flat = [e for _, evs in part for e in evs]
        line = r["line"] or 1
        n = 0
        for _, evs in part:      # executions completely explained before the rejected line
            n += len(evs)
            if n < line:
                accepted += 1
        ev = flat[line - 1] if line <= len(flat) else None
        verdict["full_rejected"] += 1
        ctx.log("pool E2: full conformance rejected at line %s of %s (%s): %s"
                % (line, os.path.basename(p), r["invariant"] or "no action of the specification explains the event",
                   json.dumps({k: v for k, v in (ev or {}).items() if k != "u"})[:700]))
        ctx.mismatches.append({"pool_trace_line": line, "invariant": r["invariant"],
                               "event": {k: v for k, v in (ev or {}).items() if k not in ("u",)}})
        r2 = ctx.tlc_trace(d, "Trace_Pool.tla", "Trace_Pool_monitor.cfg", p, timeout=2400, xss=True)
        if r2["accepted"]:
            ctx.notes.append("chain pools: the real code differs from spec/Pool in a way none of its statements forbids "
                             "(see conformance_mismatches)")
            continue
        l2 = r2["line"] or 1
        ev2 = flat[l2 - 1] if l2 <= len(flat) else None
        verdict["monitor_rejected"] += 1
        stmt = r2["invariant"] or "?"
        verdict.setdefault("statements", []).append(stmt)
        ctx.log("pool E2: pool monitor rejected at line %s, statement %s: %s"
                % (l2, stmt, json.dumps({k: v for k, v in (ev2 or {}).items() if k != "u"})[:700]))
        ctx.mismatches.append({"pool_monitor_line": l2, "statement": stmt + " (spec/Pool/Trace_Pool.tla: MonRetention, MonPure, MonIndex, "
                               "MonHandover = retention / slot purity / index lockstep / handover window and no handover after the write)",
                               "event": {k: v for k, v in (ev2 or {}).items() if k not in ("u",)}})
        ctx.notes.append("chain pools: a statement of spec/Pool is violated by the real code; it is not implied by C19's text "
                         "and is recorded as a conformance mismatch")
        r3 = ctx.tlc_trace(d, "Trace_Pool.tla", "Trace_Pool_c19.cfg", p, timeout=2400, xss=True)
        if r3["accepted"]:
            continue
        l3 = r3["line"] or 1
        verdict["c19_rejected"] += 1
        bad = None
        n = 0
        for first, evs in part:
            if n < l3 <= n + len(evs):
                bad = (l3 - n, evs)
            n += len(evs)
        bad = bad or (1, part[-1][1])
        ctx.violation("the live round of a real chain fed through the final pool and the poll loop holds a snapshot twice "
                      "(C19: accepted snapshots have distinct hashes) - event %s" % json.dumps(flat[l3 - 1])[:500],
                      {"universe": bad[1][0].get("u"), "ops": [e["o"] for e in bad[1][:bad[0]] if e["ev"] == "Op"],
                       "failing_index": bad[0] - 1, "failing_event": flat[l3 - 1], "spec": "spec/Pool/Trace_Pool.tla (Mode c19)"})
    return accepted, verdict


def run_pool(ctx):
    rng = random.Random(ctx.seed * 7919 + 19)
    d = ctx.specdir("Pool")
    # ---- E3
    sizes = model(ctx, d) if not os.environ.get("VERIF_POOL_SKIP_MODEL") else {}
    # ---- E1
    edges = ctx.tlc_edges(d, "MC_Pool.tla", "Gen_Pool_A.cfg", timeout=2400)
    uni = next(e for e in edges if e.get("u"))
    ua = real_universe(uni["u"], uni["k"])
    ws = build_walks(edges, rng=rng, n_random=200, depth=30, maxlen=60)
    walks = [{"tag": "A", "u": ua, "ops": ops_of(w)} for w in ws]
    n_cover = len(walks)
    for fam, cfg, num, depth in (("B", "Gen_Pool_B.cfg", 400, 70), ("C", "Gen_Pool_C.cfg", 200, 60)):
        sims = ctx.tlc_sim(d, "MC_Pool.tla", cfg, num=num, depth=depth, timeout=1800)
        if not sims:
            raise Infra("no simulated behaviour from %s" % cfg)
        un = next(e for w in sims for e in w if e.get("u"))
        ur = real_universe(un["u"], un["k"])
        walks += [{"tag": fam, "u": ur, "ops": ops_of(w)} for w in sims]
    walks += directed()
    cases = os.path.join(ctx.scratch, "cases_pool.json")
    with open(cases, "w") as fh:
        json.dump({"walks": walks}, fh)
    trace = os.path.join(ctx.scratch, "trace_pool.ndjson")
    ctx.go_harness("kernel", "^TestVerifPool$", env={"VERIF_CASES": cases, "VERIF_TRACE": trace}, timeout=2400)
    events = read_ndjson(trace)
    traces = split_traces(events)
    ops = [e for e in events if e["ev"] == "Op"]
    ctx.log("pool harness: %d walks (%d edge-cover), %d events" % (len(walks), n_cover, len(events)))
    # ---- E2
    accepted, verdict = validate(ctx, d, traces)
    ctx.traces += accepted
    ctx.evaluations += len(ops)
    hand = [e for e in ops if e["o"]["op"] == "P" and e.get("at") == "hand"]
    ctx.cov["chain_pools"] = {
        "model_distinct_states": sizes, "witnesses_reached": WITNESSES,
        "edges_in_emission_family": len(edges), "walks": len(walks), "edge_cover_walks": n_cover,
        "events": len(ops), "executions_accepted": accepted, "executions": len(traces),
        "poll_iterations": sum(1 for e in ops if e["o"]["op"] == "P" and e.get("at") == "end"),
        "handovers_observed": len(hand),
        "round_transitions_through_the_pool": sum(1 for a, b in zip(events, events[1:]) if b["ev"] == "Op" and b["o"]["op"] == "P"
                                                  and a["obs"]["fc"] + 1 == b["obs"]["fc"]),
        "slot_reuses": sum(1 for a, b in zip(events, events[1:]) if b["ev"] == "Op" and
                           any(sa["i"] == sb["i"] and sa["num"] != sb["num"] for sa in a["obs"]["slots"] for sb in b["obs"]["slots"])),
        "append_errors": sum(1 for e in ops if e["o"]["op"] in ("Recv", "Consume") and e.get("res") == "err"),
        "max_slot_size": max([s["size"] for e in events for s in e["obs"]["slots"]] + [0]),
        "verdict": verdict,
    }
    ctx.assumptions.append(
        "chain pools (spec/Pool, thorough tier): appendFinalSnapshot is one atomic step (its two unsynchronised reads of FinalIndex "
        "and the head round are not interleaved with a round transition); the finalization handler is abstracted to round, "
        "certificate kind, transactions present and closed set; one genesis chain of a 7-node network, no membership change, "
        "no pledging chain (chain.State == nil), known external references only")
    return verdict


if __name__ == "__main__":
    # stand-alone driver (development / demonstrations): python3 tools/props/pool.py ; evidence goes to VERIF_EVIDENCE_DIR
    import vlib
    if not os.environ.get("VERIF_EVIDENCE_DIR"):
        os.environ["VERIF_EVIDENCE_DIR"] = "/tmp/growpool/evidence"
    vlib.main(lambda ctx, a: run_pool(ctx), "C19")
