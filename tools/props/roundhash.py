"""C18 - round hash is a function of (node, number, snapshot set); both implementations agree
(spec/Rounds/RoundHash.tla, MC_RoundHash, Trace_RoundHash; harness storage/zz_verif_roundhash)."""
import json, os, random

PROPS = ["C18"]
from vlib import read_ndjson, split_traces, Infra


def run(ctx, args):
    quick = ctx.tier == "quick"
    d = ctx.specdir("Rounds")
    # ---- E3: order independence, shape and injectivity over every ordered slice of the pool
    ctx.tlc_mc(d, "MC_RoundHash.tla", "MC_RoundHash.cfg", workers=8, timeout=3000)
    ctx.exhaustive = True
    # ---- E1: every case of the table is executed on both real implementations
    cases = ctx.tlc_edges(d, "MC_RoundHash.tla", "Gen_RoundHash.cfg", tag="CASE ", timeout=3000)
    # (a CONSTRAINT is evaluated more than once per state: drop repeats)
    cases = [json.loads(k) for k in sorted({json.dumps(c, sort_keys=True) for c in cases})]
    rng = random.Random(ctx.seed)
    def argkey(c):
        return json.dumps([c["node"], c["n"], sorted((s["h"], s["ts"]) for s in c["q"])])
    byarg = {}
    for c in cases:
        byarg.setdefault(argkey(c), []).append(c)
    keys = sorted(byarg)
    rng.shuffle(keys)
    # group 0: one order of every argument (injectivity across all arguments);
    # groups 1..: all orders of a seeded partition of the arguments (order independence + injectivity)
    groups = [[rng.choice(byarg[k]) for k in keys]]
    part = 16
    for i in range(0, len(keys), part):
        g = [c for k in keys[i:i + part] for c in byarg[k]]
        rng.shuffle(g)
        groups.append(g)
    cfile = os.path.join(ctx.scratch, "cases18.json")
    with open(cfile, "w") as fh:
        json.dump({"groups": groups, "random": 150 if quick else 1500, "maxset": 16 if quick else 64,
                   "perms": 4 if quick else 6}, fh)
    trace = os.path.join(ctx.scratch, "trace18.ndjson")
    ctx.go_harness("storage", "^TestVerifRoundHash$", env={"VERIF_CASES": cfile, "VERIF_TRACE": trace})
    events = read_ndjson(trace)
    ctx.log("harness done: %d lines" % len(events))
    traces = split_traces(events)
    calls = [e for e in events if e["ev"] == "Hash"]
    ctx.evaluations = len(calls)
    ctx.distinct = len({json.dumps([e["node"], e["n"], e["q"]], sort_keys=True) for e in calls if len(e["q"]) > 1})
    ctx.cov["max_set_size"] = max(len(e["q"]) for e in calls)
    ctx.cov["distinct_arguments"] = len({json.dumps([e["node"], e["n"], sorted((s["h"], s["ts"]) for s in e["q"])]) for e in calls})
    ctx.rule = ("every case (node, number, ordered slice of 1..4 of 6 pool snapshots) of MC_RoundHash executed on "
                "common.ComputeRoundHash and storage.computeRoundHash with real snapshots whose payload hashes are ordered "
                "like the model's ranks, plus seeded random groups (base set up to %d members, member dropped/replaced, other "
                "node/number, several orders); distinct = distinct (node, number, ordered slice) with more than one member"
                % (16 if quick else 64))
    ctx.samples = [{k: e[k] for k in ("impl", "node", "n", "q", "res", "start", "end", "hc")} for e in calls[:2] + calls[-2:]]
    r = ctx.tlc_trace(d, "Trace_RoundHash.tla", "Trace_RoundHash_full.cfg", trace, timeout=3000)
    if r["accepted"]:
        ctx.traces = len(traces)
        ctx.log("E2 full conformance: %d groups / %d lines accepted" % (len(traces), len(events)))
    else:
        ctx.log("E2 full conformance rejected at line %s; running the property monitor" % r["line"])
        ctx.mismatches.append({"line": r["line"], "event": events[r["line"] - 1] if r["line"] and r["line"] <= len(events) else None})
        r2 = ctx.tlc_trace(d, "Trace_RoundHash.tla", "Trace_RoundHash_monitor.cfg", trace, timeout=3000)
        if r2["accepted"]:
            ctx.traces = len(traces)
            ctx.notes.append("conformance mismatch not forbidden by this property (see conformance_mismatches)")
        else:
            line = r2["line"] or 1
            bad = traces[-1]
            for first, evs in traces:
                if first <= line < first + len(evs) + 1:
                    bad = (first, evs)
            ctx.traces = sum(1 for first, evs in traces if first + len(evs) <= line)
            ev = events[line - 1] if line <= len(events) else None
            # keep the replay small: the failing call and the earlier calls of its group on the same / clashing result
            rel = [e for e in bad[1][:line - bad[0]] if ev and e.get("ev") == "Hash" and
                   (e.get("hc") == ev.get("hc") or (e["node"], e["n"], sorted((s["h"], s["ts"]) for s in e["q"])) ==
                    (ev["node"], ev["n"], sorted((s["h"], s["ts"]) for s in ev["q"])))]
            ctx.violation("round hash is not a function of (node, number, snapshot set) shared by both implementations, or two "
                          "different arguments collide (line %d of the trace, event %s)" % (line, json.dumps(ev)),
                          {"failing_event": ev, "related_earlier_calls": rel[-12:], "group_first_line": bad[0],
                           "failing_index": line - bad[0]})
    ctx.assumptions += [
        "BLAKE3 is collision free on the explored inputs (the model's H is injective)",
        "members of one set have distinct hashes; timestamps < 2^63; slices span less than the round gap",
        "only snapshot version 2 exists in this tree (PayloadHash rejects others), so version mixes are not constructible",
    ]
