"""Design-level composition check (growth, DESIGN.md section 13.5): spec/Kernel/CosiSafety.tla.
Two conflicting transactions are never both certified when honest signers reserve the spent output
for one pending transaction (C03), a certificate needs the threshold (C09) and the threshold is the
code's formula (C10), for every tolerated number of faulty keys; the round-0 acceptance key set of
known finding C10-1 is shown to lose this. Invoked by the thorough tier of C10."""
PROPS = []


def run_design(ctx):
    d = ctx.specdir("Kernel")
    for c in ("7", "8", "9") + (("10",) if ctx.tier == "thorough" else ()):
        ctx.tlc_mc(d, "CosiSafety.tla", "MC_CosiSafety_%s.cfg" % c, workers=12, timeout=2400)
    if any(k["id"] == "C10-1" for k in ctx.known()):
        ctx.tlc_mc(d, "CosiSafety.tla", "MC_CosiSafety_accept0.cfg", workers=8, timeout=600,
                   expect_violation="NoDoubleSpend", count=False)
        ctx.notes.append("CosiSafety: with the round-0 acceptance key set of C10-1 (8 keys, threshold 5, 2 faulty keys) "
                         "two conflicting certificates are reachable at design level")
