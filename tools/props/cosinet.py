"""System-level trace validation of the CoSi exchange (growth, DESIGN.md section 13.5): the repository's
own multi-node test rpc/consensus_test.go is run with the build tag verif; the hooks of
kernel/verif_hook.go record every protocol step of every node (announce, acknowledge, commit, challenge,
respond, finalize, accept a finalization, abandon) and the hook of storage/verif_hook.go every snapshot
write; TLC validates the whole trace against spec/Net/Trace_Cosi.tla (conditions and code locations in
spec/Net/Cosi.tla) and checks the design-level model spec/Net/MC_Cosi.tla exhaustively. Used by the
thorough tiers of C09, C12 and C24 (monitor configurations exist for C09, C12, C24 and C03)."""
import json, os
import vlib
from vlib import Infra
import netrace

PROPS = []

COSI_EVENTS = ("AN", "AK", "CM", "CH", "FC", "RP", "RS", "FIN", "HF", "AB", "RR")
WS_FIELDS = ("ev", "node", "seq", "hash", "chain", "round")


def flatten(events):
    nets = {}
    for ev in events:
        k = ev.get("ev")
        if k != "WS" and k not in COSI_EVENTS:
            continue
        net = ev.get("net", "?")
        if k == "WS":
            ev = {f: ev[f] for f in WS_FIELDS if f in ev}
        else:
            ev = {f: v for f, v in ev.items() if f != "net"}
        nets.setdefault(net, []).append(ev)
    flat = []
    for k in nets:
        flat.append({"ev": "Reset", "net": k})
        flat += nets[k]
    return nets, flat


def model(ctx, d):
    """Design level: 4 nodes, conflicting snapshots, up to f faulty responders; exhaustive."""
    r = [ctx.tlc_mc(d, "MC_Cosi.tla", c, workers=4, timeout=1800) for c in ("MC_Cosi_one.cfg", "MC_Cosi.cfg")]
    for cfg, inv in (("MC_Cosi_witness_final.cfg", "NeverWritten"), ("MC_Cosi_witness_nolock.cfg", "Safety"),
                     ("MC_Cosi_witness_f2.cfg", "Safety")):
        ctx.tlc_mc(d, "MC_Cosi.tla", cfg, workers=4, timeout=1800, expect_violation=inv, count=False)
    ctx.cov["cosi_model"] = {"configs": ["MC_Cosi_one.cfg", "MC_Cosi.cfg"], "distinct_states": [x["distinct"] for x in r],
                             "witnesses_reached": ["NeverWritten (a snapshot can be finalized and written)",
                                                   "Safety without the reservation rule R5, no faulty node",
                                                   "Safety with 2 of 4 nodes faulty"]}


def validate(ctx, d, flat, nets, label="cosi trace"):
    """Full conformance, then the monitor of ctx.pid. Returns True when nothing of ctx.pid is violated."""
    path = os.path.join(ctx.scratch, "cosi_grouped_%d.ndjson" % len(os.listdir(ctx.scratch)))
    with open(path, "w") as fh:
        for ev in flat:
            fh.write(json.dumps(ev) + "\n")
    r = ctx.tlc_trace(d, "Trace_Cosi.tla", "Trace_Cosi_all.cfg", path, xss=True, timeout=3000)
    if r["accepted"]:
        ctx.traces += len(nets)
        ctx.log("%s: %d events in %d networks accepted" % (label, len(flat) - len(nets), len(nets)))
        return True
    ev = flat[r["line"] - 1] if r["line"] and r["line"] <= len(flat) else None
    ctx.log("%s: full conformance rejected at line %s: %s" % (label, r["line"], json.dumps(ev)[:300]))
    ctx.mismatches.append({"cosi_trace_line": r["line"], "event": ev})
    cfg = "Trace_Cosi_%s.cfg" % ctx.pid
    if not os.path.exists(os.path.join(d, cfg)):
        ctx.notes.append("CoSi trace: no monitor configuration for %s; conformance mismatch recorded only" % ctx.pid)
        return True
    r2 = ctx.tlc_trace(d, "Trace_Cosi.tla", cfg, path, xss=True, timeout=3000)
    if r2["accepted"]:
        ctx.traces += len(nets)
        ctx.notes.append("CoSi trace: a condition of another property is not met (see conformance_mismatches)")
        return True
    line = r2["line"] or 1
    bad = flat[line - 1] if line <= len(flat) else {}
    same = [e for e in flat[:line] if e.get("hash") is not None and e.get("hash") == bad.get("hash")]
    ctx.violation("the CoSi exchange of a real multi-node network violates %s (conditions of spec/Net/Cosi.tla, monitor %s) "
                  "at trace line %d: %s" % (ctx.pid, cfg, line, json.dumps(bad)[:600]),
                  {"failing_event": bad, "events_of_the_snapshot": same[-80:], "events_before": flat[max(0, line - 40):line],
                   "failing_index": min(39, line - 1), "spec": "spec/Net/Trace_Cosi.tla", "cfg": cfg,
                   "how": "write events_of_the_snapshot (preceded by {\"ev\":\"Reset\"}) to a file and run TLC on Trace_Cosi.tla "
                          "with VERIF_TRACE=<file>; or python3 tools/vcheck.py %s --tier thorough" % ctx.pid})
    return False


def run_cosinet(ctx, with_model=True):
    d = ctx.specdir("Net")
    if with_model:
        model(ctx, d)
    events, out = netrace.record(ctx)
    nets, flat = flatten(events)
    n = len(flat) - len(nets)
    kinds = {k: sum(1 for e in flat if e["ev"] == k) for k in COSI_EVENTS + ("WS",)}
    if not any(kinds[k] for k in COSI_EVENTS):
        raise Infra("the multi-node trace has no CoSi events: kernel/verif_hook.go is missing in %s "
                    "(apply /verif/harness/hooks/cosi_hooks.patch)" % vlib.REPO)
    if n < 500:
        raise Infra("multi-node CoSi trace too short (%d events):\n%s" % (n, out[-1500:]))
    ctx.evaluations += n
    ctx.cov["cosi_trace"] = {"events": n, "networks": len(nets),
                             "nodes": len({(net, e["node"]) for net in nets for e in nets[net]}),
                             "snapshots_announced": kinds["AN"], "snapshots_finalized": kinds["FIN"],
                             "test_passed": "\nok " in out or out.startswith("ok "), "by_event": kinds}
    validate(ctx, d, flat, nets)
    ctx.assumptions.append(
        "system level (spec/Net/Trace_Cosi.tla): one recorded run of the repository's multi-node test (8 genesis nodes, "
        "relayers, a pledged node; honest nodes only); the conditions are judged on whatever was recorded, whether or not "
        "the test's own assertions passed; events are ordered by the process-wide trace lock")
