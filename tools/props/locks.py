"""C03 / C04 — reservation machine (spec/Locks). Shared by both property ids: the replayed
behaviours and the concurrent histories are the same, the monitor is spec/Locks StepOK+StateInv."""
import json, os, random

PROPS = ["C03", "C04"]
from vlib import build_walks, merge_prefix_walks, read_ndjson, split_traces, Infra

FAMS = {"A": ["T1", "T2", "T3"], "B": ["D1", "D2", "D3", "T1"], "C": ["M1", "M2", "M3"]}


def run(ctx, args):
    if ctx.pid == "C03":
        _run_proof(ctx)
    _run_locks(ctx, args)
    if ctx.pid == "C03" and ctx.tier == "thorough":
        # system level: in a real multi-node network no signer answers for two different transactions that
        # spend the same slot (condition [R5] of spec/Net/Cosi.tla), judged on a recorded run
        import cosinet
        cosinet.run_cosinet(ctx, with_model=False)


def _run_proof(ctx):
    """Unbounded part of C03 (spec/Locks/LocksProof.tla): TLAPS proves, for arbitrary sets of transactions and
    outputs and arbitrary input sets, that a stored transaction holds all its inputs, final is a subset of body
    (hence no two finalized transactions share an input) and that a finalized holder is never displaced.
    MC_LocksProof is the same module with small constants, checked by TLC (plus three non-vacuity witnesses)."""
    import re, shutil, subprocess
    d = ctx.specdir("Locks")
    if shutil.which("tlapm"):
        pr = subprocess.run(["timeout", "300", "tlapm", "--threads", "8", "LocksProof.tla"], cwd=d,
                            stdout=subprocess.PIPE, stderr=subprocess.STDOUT, text=True)
        m = re.search(r"All (\d+) obligations proved", pr.stdout)
        ctx.checker_cmds.append("tlapm --threads 8 LocksProof.tla")
        if m:
            ctx.cov["tlaps_obligations_proved"] = int(m.group(1))
            ctx.log("TLAPS: LocksProof.tla, %s obligations proved (unbounded Tx, Out, Ins: Spec => []Inv, "
                    "[]NoDoubleSpend, [][FinalKept]_vars, [][StepOK]_vars)" % m.group(1))
        else:
            raise Infra("tlapm did not prove LocksProof.tla:\n" + pr.stdout[-1500:])
    else:
        ctx.notes.append("tlapm not found: the unbounded proof of the reservation invariants "
                         "(spec/Locks/LocksProof.tla) was not re-proved")
    # the same module instantiated with small constants: TLC checks the proved invariants and action properties
    for f in ("A", "B"):
        ctx.tlc_mc(d, "MC_LocksProof.tla", "MC_LocksProof_%s.cfg" % f, workers=4, timeout=300, count=False)
    for w in ("NoTakeover", "NoFinalConflict", "NoRefusal"):
        ctx.tlc_mc(d, "MC_LocksProof.tla", "MC_LocksProof_wit_%s.cfg" % w, workers=4, timeout=300, count=False,
                   expect_violation=w)


def _run_locks(ctx, args):
    quick = ctx.tier == "quick"
    rng = random.Random(ctx.seed)
    d = ctx.specdir("Locks")
    # ---- E3: exhaustive design check of the three emission families and of the joint family
    for f in ("A", "B", "C", "All"):
        ctx.tlc_mc(d, "MC_Locks.tla", "MC_Locks_%s.cfg" % f, workers=8, timeout=1200)
    ctx.exhaustive = True
    # ---- E1: every edge of the three families -> walks
    walks = []
    n_edges = 0
    for f in ("A", "B", "C"):
        edges = ctx.tlc_edges(d, "MC_Locks.tla", "Gen_Locks_%s.cfg" % f)
        n_edges += len(edges)
        ws = build_walks(edges, rng=rng, n_random=(100 if quick else 2000), depth=14)
        for w in ws:
            walks.append({"fam": FAMS[f], "ops": [e["o"] for e in w]})
    ctx.log("walks: %d covering %d edges" % (len(walks), n_edges))
    cases = os.path.join(ctx.scratch, "cases.json")
    hist = 500 if quick else 8000
    with open(cases, "w") as fh:
        json.dump({"walks": walks, "histories": hist}, fh)
    trace = os.path.join(ctx.scratch, "trace.ndjson")
    ctx.go_harness("storage", "^TestVerifLocksReplay$", env={"VERIF_CASES": cases, "VERIF_TRACE": trace})
    events = read_ndjson(trace)
    traces = split_traces(events)
    ctx.evaluations = sum(1 for e in events if e["ev"] in ("Op", "Call"))
    ctx.distinct = len({json.dumps([e.get("o") for e in t[1] if "o" in e], sort_keys=True) for t in traces})
    ctx.rule = ("every edge of the exhaustive TLC state graph of spec/Locks families A,B,C replayed on a real "
                "BadgerStore (shortest path + edge), seeded random walks, and seeded concurrent histories "
                "(2-4 goroutines racing LockIn/LockGhost after a sequential prefix); distinct = distinct "
                "operation sequences, each containing at least one lock call")
    ctx.samples = [[e.get("o", e["ev"]) for e in t[1]][:12] for t in traces[:2] + traces[-2:]]
    validate(ctx, d, trace, events, traces)
    ctx.assumptions += [
        "goroutine schedules on the real store are sampled, not enumerated (exhaustive only in the model)",
        "the three hard-coded historical transaction hashes of lockGhostKey cannot be constructed and are outside the explored space",
        "Badger transactions are atomic and the store mutex is a correct mutex",
    ]


def validate(ctx, d, trace, events, traces):
    r = ctx.tlc_trace(d, "Trace_Locks.tla", "Trace_Locks_full.cfg", trace)
    if r["accepted"]:
        ctx.traces = len(traces)
        ctx.log("E2 full conformance: %d traces / %d lines accepted" % (len(traces), len(events)))
        return
    ctx.log("E2 full conformance rejected at line %s (invariant %s); running the property monitor"
            % (r["line"], r["invariant"]))
    ctx.mismatches.append({"line": r["line"], "invariant": r["invariant"],
                           "event": events[r["line"] - 1] if r["line"] and r["line"] <= len(events) else None})
    # property monitor pass, trace by trace from the failing one on, so that every violation is
    # attributed to one recorded execution
    r2 = ctx.tlc_trace(d, "Trace_Locks.tla", "Trace_Locks_%s.cfg" % ctx.pid, trace)
    if r2["accepted"]:
        ctx.traces = len(traces)
        ctx.notes.append("conformance mismatch not forbidden by this property (see conformance_mismatches)")
        return
    line = r2["line"] or 1
    bad = None
    for first, evs in traces:
        if first <= line < first + len(evs) + 1:
            bad = (first, evs)
    if bad is None:
        bad = traces[-1]
    ctx.traces = sum(1 for first, evs in traces if first + len(evs) <= line)
    ctx.violation("recorded execution of the real store is not a behaviour the reservation specification allows "
                  "(monitor: %s, line %d of the trace, event %s)"
                  % (r2["invariant"] or "no enabled action explains the event", line,
                     json.dumps(events[line - 1]) if line <= len(events) else "?"),
                  {"trace": bad[1], "failing_index": line - bad[0], "invariant": r2["invariant"]})
