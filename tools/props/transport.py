"""C31 — every message the node sends fits the transport limit (spec/Proposal/Transport.tla).

E3  MC_Transport: scaled decision table of the batcher (MAX = 48 units, envelope cap 6 units, queues of
    size classes): with accounting of the SIGNED length every admitted batch fits; with the code's
    accounting of the unsigned payload length the invariant is violated (witness, must be reached).
E1  TLC-emitted queue shapes over {tiny, signature-heavy} concretized with real transactions (funded
    outputs with many keys, many real signatures), queued on a real node and batched by the real
    popAndProcessCacheQueue; the admitted batch is handed to the real p2p builders (bundle, relay
    wrapper, challenge messages) and to the real QUIC transport (loopback pair); framing round trips at
    boundary sizes; raw oversized headers.
E2  recorded events judged by TLC against Trace_Transport (conformance + monitor, then monitor).
Both tiers: one real over-threshold queue built cheaply: 9 storage transactions with 2.48 MB of extra each
(unsigned payloads just under 2/3 of 32 MiB in sum) and 76 x 249 real signatures each (signed envelopes just
over 32 MiB in sum): the batcher must cut it; a batcher that accounts less than the signed length admits all 9
and the bundle exceeds 32 MiB. Thorough tier: additionally 9 envelopes of ~4 MiB made of signatures only."""
import json, os, random, re

PROPS = ["C31"]
from vlib import read_ndjson, Infra

TINY = {"inputs": 1, "sigs": 1, "extra": 8}


def concretize(shape, heavy):
    return [dict(TINY) if c == "t" else dict(heavy) for c in shape]


def run(ctx, args):
    quick = ctx.tier == "quick"
    rng = random.Random(ctx.seed)
    d = ctx.specdir("Proposal")
    from concurrent.futures import ThreadPoolExecutor
    with ThreadPoolExecutor(max_workers=4) as ex:
        f1 = ex.submit(ctx.tlc_mc, d, "MC_Transport.tla", "MC_Transport_signed.cfg" if quick else "MC_Transport_signed_big.cfg",
                       workers=4, timeout=2400)
        f2 = ex.submit(ctx.tlc_mc, d, "MC_Transport.tla", "MC_Transport_payload.cfg", workers=1, timeout=900,
                       expect_violation="Fits", count=False)
        f3 = ex.submit(ctx.tlc_edges, d, "MC_Transport.tla", "Gen_Transport.cfg", timeout=900, tag="CASE ")
        f1.result()
        f2.result()
        shapes = f3.result()
    ctx.exhaustive = True
    ctx.cov["witnesses_reached"] = ["Fits is violated when the batcher accounts the unsigned payload length (scaled model)"]
    seen, uniq = set(), []
    for s in shapes:
        k = json.dumps(s, sort_keys=True)
        if k not in seen:
            seen.add(k)
            uniq.append(s)
    shapes = uniq
    fits = [s for s in shapes if not s["cut"]]
    over = sorted([s for s in shapes if s["cut"]], key=lambda s: (-s["n"], -s["shape"].count("h")))
    # ---- E1 (kernel): the real batcher
    cases = []
    heavy_small = {"inputs": 4, "sigs": 16, "extra": 0} if quick else {"inputs": 16, "sigs": 64, "extra": 0}
    for s in rng.sample(fits, min(len(fits), 24 if quick else 60)):
        cases.append({"name": "".join(s["shape"]), "txs": concretize(s["shape"], heavy_small)})
    # shapes the scaled batcher cuts, at the calibrated small scale (in reality nothing is cut: the
    # batcher must admit all of them)
    for s in over[:2]:
        cases.append({"name": "".join(s["shape"]) + "-scaled", "txs": concretize(s["shape"], heavy_small)})
    # the ACCOUNTING instance (both tiers): 9 storage transactions whose unsigned payloads (2.48 MB of extra each)
    # sum to just under the batcher's threshold of 2/3 x 32 MiB while their signed envelopes (76 inputs x 249 real
    # signatures each, ~1.7e5 signatures in all) sum to just over 32 MiB. A batcher that accounts the signed length
    # stops at 5; one that accounts the unsigned payload admits all 9 and the bundle exceeds the maximum.
    acct = {"inputs": 76, "sigs": 249, "extra": 2479000}
    cases.append({"name": "accounting-real", "txs": [dict(acct) for _ in range(9)]})
    if not quick:
        # REAL scale: signature-heavy = 256 inputs x 247 signatures (envelope just under the 4 MiB cap,
        # payload ~ 10 KiB); 9 of them = 37.7 MB of envelopes: the batcher must stop at 5 (< 2/3 of 32 MiB)
        huge = {"inputs": 256, "sigs": 247, "extra": 0}
        s = over[0]
        cases.append({"name": "".join(s["shape"]) + "-real", "txs": concretize(s["shape"], huge)})
    outdir = os.path.join(ctx.scratch, "batches")
    os.makedirs(outdir, exist_ok=True)
    cpath = os.path.join(ctx.scratch, "kcases.json")
    with open(cpath, "w") as fh:
        json.dump({"cases": cases, "out": outdir}, fh)
    ktrace = os.path.join(ctx.scratch, "ktrace.ndjson")
    ctx.go_harness("kernel", "^TestVerifTransportBatcher$", env={"VERIF_CASES": cpath, "VERIF_TRACE": ktrace}, timeout=2700)
    kev = read_ndjson(ktrace)
    batches = [e["file"] for e in kev if e["ev"] == "Batch" and e.get("file") and e["batch"]]
    # ---- E1 (p2p): builders on the admitted batches, framing
    mx = next(e["max"] for e in kev if e["ev"] == "Limits")
    frames = [0, 1, 2, 5, 6, 7, 255, 256, 65535, 65536, 65537, mx, mx + 1]
    frames += [rng.randrange(1, 1 << 20) for _ in range(6 if quick else 30)]
    frames += [rng.randrange(1 << 20, mx) for _ in range(1 if quick else 4)] + [mx - 1]
    # (receive limits stay below the initial QUIC stream window so that an over-limit frame can still be written)
    pcases = {"batches": batches, "frames": frames, "over": [mx + 1, 64 << 20, 1 << 30, (1 << 32) - 1],
              "limits": [1, 1000, 65536, rng.randrange(2, 300000)], "big_send": not quick}
    ppath = os.path.join(ctx.scratch, "pcases.json")
    with open(ppath, "w") as fh:
        json.dump(pcases, fh)
    ptrace = os.path.join(ctx.scratch, "ptrace.ndjson")
    ctx.go_harness("p2p", "^TestVerifTransportP2P$", env={"VERIF_CASES": ppath, "VERIF_TRACE": ptrace}, timeout=1800)
    pev = read_ndjson(ptrace)
    if any(e["ev"] == "Frame" and "timeout" in (e["send"], e["recv"]) for e in pev):
        raise Infra("a loopback QUIC transfer hit the transport's write/read deadline (overloaded machine); no verdict")
    events = kev + pev
    trace = os.path.join(ctx.scratch, "trace.ndjson")
    with open(trace, "w") as fh:
        for e in events:
            fh.write(json.dumps(e) + "\n")
    # the constants of the code under test parameterize the trace specification
    cmax = next(e["countmax"] for e in kev if e["ev"] == "Limits")
    for m in ("full", "C31"):
        with open(os.path.join(d, "Trace_Transport_%s.cfg" % m), "w") as fh:
            fh.write('SPECIFICATION Spec\nCONSTANTS\n  Mode = "%s"\n  MaxC = %d\n  CountMaxC = %d\nCONSTRAINT HW\n'
                     'INVARIANT Inv\nPOSTCONDITION Accepted\nCHECK_DEADLOCK FALSE\n' % (m, mx, cmax))
    ctx.evaluations = len(events)
    ctx.distinct = len({json.dumps({k: v for k, v in e.items() if not k.endswith("_s") and k not in ("ms", "alloc_kib", "file")},
                                   sort_keys=True) for e in events})
    nb = [e for e in kev if e["ev"] == "Batch"]
    ctx.cov["batcher_runs"] = len(nb)
    ctx.cov["queued_transactions"] = sum(e["n"] for e in nb)
    ctx.cov["largest_bundle_bytes"] = max([e["len"] for e in pev if e["ev"] == "Built"] or [0])
    ctx.cov["largest_signed_to_payload_ratio"] = round(max([max(e["signed"]) / max(1, min(e["payload"])) for e in nb] or [0]), 1)
    ctx.cov["frames"] = sum(1 for e in pev if e["ev"] == "Frame")
    ctx.cov["timings_s"] = {e["case"]: [round(e["build_s"], 1), round(e["batcher_s"], 1)] for e in nb if e["batcher_s"] > 5}
    ctx.rule = ("events recorded from the real batcher (one per TLC-emitted queue shape, concretized with real signed "
                "transactions), the real p2p message builders applied to every admitted batch, and the real QUIC framing; "
                "distinct = distinct events ignoring timings")
    ctx.samples = [{k: e[k] for k in ("case", "payload", "signed", "batch")} for e in nb[:2]]
    validate(ctx, d, trace, events)
    ctx.assumptions += [
        "the batch is observed as the self snapshot the batcher appends to its chain's cache pool (the node is made to "
        "believe its peers are in step); the peer path sends the same batch through SendTransactionsMessage",
        "the TLC-emitted shapes are concretized at a calibrated small scale (signature-heavy = 4 inputs x 16 signatures in the "
        "quick tier); the batcher's threshold is reached by one real instance per run: storage transactions with 2.48 MB of "
        "extra each and ~1.7e5 real signatures in all (payload sum < 2/3 max < max < envelope sum)",
        "transactions of one batch spend the same funded outputs (the batcher validates, it does not lock inputs)",
        "allocation before the size check is detected through runtime.MemStats.TotalAlloc around the real Receive",
    ]


def validate(ctx, d, trace, events):
    r = ctx.tlc_trace(d, "Trace_Transport.tla", "Trace_Transport_full.cfg", trace, timeout=1800, xss=True)
    if r["accepted"]:
        ctx.traces = len(events)
        ctx.log("E2 full conformance + monitor: %d recorded events accepted" % len(events))
        return
    ctx.log("E2 full pass rejected at line %s; running the property monitor alone" % r["line"])
    r2 = ctx.tlc_trace(d, "Trace_Transport.tla", "Trace_Transport_C31.cfg", trace, timeout=1800, xss=True)
    if r2["accepted"]:
        ctx.traces = len(events)
        ev = events[r["line"] - 1] if r["line"] and r["line"] <= len(events) else None
        ctx.mismatches.append({"line": r["line"], "event": {k: v for k, v in (ev or {}).items() if k not in ("signed", "payload")}})
        ctx.notes.append("conformance mismatch not forbidden by this property (see conformance_mismatches)")
        return
    line = r2["line"] or 1
    ctx.traces = line - 1
    ev = events[line - 1] if line <= len(events) else {}
    short = {k: v for k, v in ev.items() if k not in ("signed", "payload")}
    ctx.violation("a message built by the real code does not fit the transport maximum, or framing does not round-trip / "
                  "refuse as C31 states; event %d: %s" % (line, json.dumps(short)),
                  {"event": ev, "how": "VERIF_SEED=%d python3 tools/vcheck.py C31 --tier %s" % (ctx.seed, ctx.tier)})
