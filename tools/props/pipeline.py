"""C21 / C22 — finalization pipeline with process stop and restart (spec/Node).

E3: TLC explores every interleaving of the per-chain handlers at storage-call granularity with a
stop between any two calls and a restart, for four scenarios (pledge, pledge opening a round,
node acceptance, ordinary traffic). E1: every transition of those state graphs is replayed on a
real kernel.Node (real Badger store, real CoSi certificates, real SetupNode on restart) under a
scheduler that realises the interleaving. E2: TLC validates what the real node did and what the
restarted node reports."""
import json, os, random
from vlib import build_walks, read_ndjson, split_traces, Infra

PROPS = ["C21", "C22"]

QUICK = {"C21": ["P2", "M", "A"], "C22": ["T", "A", "O", "U"], "C35": ["P2", "M"]}
THOROUGH = {"C21": ["P", "Q", "A", "M", "T"], "C22": ["P", "Q", "A", "M", "T", "O", "U"], "C35": ["P2", "M", "A", "T"]}
# free-running races (one handler's snapshot write is slow, the other starts meanwhile, the process
# stops when the slow write returned): which pairs exist per scenario
RACES = {"P2": ["X,Y", "Y,X"], "P": ["X,Y", "Y,X", "Y,Z"], "Q": ["Y,W"], "A": ["X,Y", "Y,X"], "M": ["X,Y", "Y,X"], "T": ["Y,W"]}


UNLOCKED = {"P2", "P", "Q", "M", "A"}      # scenarios whose snapshot X is of the consensus class


def in_window(w):
    """the walk writes another snapshot between the write of consensus snapshot X and X's record"""
    inside = False
    for e in w:
        o = e["o"]
        if o.get("a") in ("Crash", "Restart"):
            inside = False
        if o.get("a") != "Step":
            continue
        if o["s"] == "X" and o["call"] == "WriteSnapshot":
            inside = True
        elif o["s"] == "X" and o["call"] == "WriteConsensusSnapshot":
            inside = False
        elif inside and o["call"] == "WriteSnapshot":
            return True
    return False


def known_set(ctx):
    ids = {k["id"] for k in ctx.known()}
    return ids


def cfg_with_known(d, cfg, ids):
    name = {frozenset(): "KnownNone", frozenset({"C21-1"}): "Known21", frozenset({"C22-1"}): "Known22",
            frozenset({"C21-1", "C22-1"}): "KnownAll"}[frozenset(ids)]
    p = os.path.join(d, cfg)
    s = open(p).read().replace("KNOWNSET", name)
    open(p, "w").write(s)


def _run_marker_proof(ctx, d):
    """Unbounded part of C21 (spec/Node/MarkerProof.tla): TLAPS proves, for any number of topology entries, chains,
    interleavings, stops and restarts, that with the consensus record written under the topology lock a running
    node outside Node.TopoWrite has marker >= last consensus entry, a stopped node is covered or repairable from
    the last entry, and right after SetupNode's repair the marker covers every consensus entry. MC_MarkerProof is
    the same module explored by TLC (n <= 5): the locked design passes, the design without the lock violates the
    invariant and the restart property, two witnesses show the repair path is reachable."""
    import re, shutil, subprocess
    from vlib import VERIF
    shutil.copy(os.path.join(VERIF, "spec", "Locks", "TLAPS.tla"), d)      # TLC has to parse EXTENDS TLAPS
    if shutil.which("tlapm"):
        pr = subprocess.run(["timeout", "300", "tlapm", "--threads", "8", "MarkerProof.tla"], cwd=d,
                            stdout=subprocess.PIPE, stderr=subprocess.STDOUT, text=True)
        m = re.search(r"All (\d+) obligations proved", pr.stdout)
        ctx.checker_cmds.append("tlapm --threads 8 MarkerProof.tla")
        if m:
            ctx.cov["tlaps_obligations_proved"] = int(m.group(1))
            ctx.log("TLAPS: MarkerProof.tla, %s obligations proved (unbounded topology: Spec => []Inv, "
                    "[](up /\\ lock = 0 => marker >= lastCons), [][Restart => (marker >= lastCons)']_vars)" % m.group(1))
        else:
            raise Infra("tlapm did not prove MarkerProof.tla:\n" + pr.stdout[-1500:])
    else:
        ctx.notes.append("tlapm not found: the unbounded proof of the marker design "
                         "(spec/Node/MarkerProof.tla) was not re-proved")
    ctx.tlc_mc(d, "MC_MarkerProof.tla", "MC_MarkerProof_Locked.cfg", workers=2, timeout=300, count=False)
    for cfg, w in (("Unlocked_Inv", "Inv"), ("Unlocked_Restart", "RestartProp"),
                   ("wit_NoStopInWindow", "NoStopInWindow"), ("wit_NoRepair", "NoRepair")):
        ctx.tlc_mc(d, "MC_MarkerProof.tla", "MC_MarkerProof_%s.cfg" % cfg, workers=2, timeout=300, count=False,
                   expect_violation=w)


def run(ctx, args, race_only=False):
    quick = ctx.tier == "quick"
    rng = random.Random(ctx.seed)
    d = ctx.specdir("Node")
    scns = (QUICK if quick else THOROUGH)[ctx.pid]
    # known findings of BOTH properties shape the design-level invariants (E3 must pass);
    # the property monitor below only tolerates the findings listed for THIS property.
    all_known = set()
    kf = os.environ.get("VERIF_KNOWN") or os.path.join(os.path.dirname(os.path.dirname(os.path.dirname(os.path.abspath(__file__)))), "known_findings.json")
    try:
        for k in json.load(open(kf)).get("known", []):
            if k["property"] in ("C21", "C22"):
                all_known.add(k["id"])
    except OSError:
        pass
    mine = known_set(ctx)
    # ---- E3
    for sc in ([] if race_only else scns):
        if quick and sc == "U":
            continue            # exhaustive check of U only in the thorough tier (its graph is still emitted)
        cfg = "MC_Node_%s_All.cfg" % sc
        src = open(os.path.join(d, cfg)).read().replace("Known <- KnownAll", "Known <- %s" % (
            {frozenset(): "KnownNone", frozenset({"C21-1"}): "Known21", frozenset({"C22-1"}): "Known22",
             frozenset({"C21-1", "C22-1"}): "KnownAll"}[frozenset(all_known)]))
        open(os.path.join(d, cfg), "w").write(src)
        ctx.tlc_mc(d, "MC_Node.tla", cfg, workers=8, timeout=1200)
    if not race_only:
        ctx.exhaustive = True
    if ctx.pid == "C21" and not race_only:
        _run_marker_proof(ctx, d)
    # non-vacuity: without the known findings the design-level invariants are violated (the model
    # reaches the states the findings describe)
    if not race_only:
        if "C21-1" in all_known:
            ctx.tlc_mc(d, "MC_Node.tla", "MC_Node_P2_None.cfg", workers=4, timeout=600, expect_violation="C21Inv", count=False)
        else:
            # the consensus record written under the topology lock is what keeps C21: the same model with the
            # record written after the lock was released (LockedMarker = FALSE) loses the marker
            ctx.tlc_mc(d, "MC_Node.tla", "MC_Node_P2_Unlocked.cfg", workers=4, timeout=600, expect_violation="C21Inv", count=False)
    if not race_only and "C22-1" not in all_known:
        # loadState completing an interrupted node acceptance is what keeps C22 in scenario A: the same
        # model without it (AcceptRepair = FALSE) cannot restart
        ctx.tlc_mc(d, "MC_Node.tla", "MC_Node_A_NoRepair.cfg", workers=4, timeout=600, expect_violation="C22Inv", count=False)
    if all_known and not race_only:
        if "C22-1" in all_known:
            ctx.tlc_mc(d, "MC_Node.tla", "MC_Node_A_None.cfg", workers=4, timeout=600, expect_violation="Inv", count=False)
    # ---- E1
    walks = []
    for sc in scns:
        if not race_only:
            edges = ctx.tlc_edges(d, "MC_Node.tla", "Gen_Node_%s.cfg" % sc)
            ws = build_walks(edges, rng=rng, n_random=(10 if quick else 200), depth=30, maxlen=36)
            if quick and sc == "U":
                # the unknown-external scenario is large: the quick tier replays a seeded sample of the
                # walks that go through the replacement of the head references
                ws = [w for w in ws if any(e["o"].get("call") == "UpdateEmptyHeadRound" for e in w)]
                rng.shuffle(ws)
                ws = ws[:45]
            for w in ws:
                walks.append({"scn": sc, "steps": [e["o"] for e in w]})
        if not race_only and sc in UNLOCKED and ctx.pid in ("C21", "C35"):
            # behaviours of the design WITHOUT the lock around the consensus record: they try to write another
            # chain's snapshot between a consensus snapshot and its record. The real node must make that
            # handler wait (event Blocked); if it does not, the behaviour goes on to the stop and restart.
            edges = ctx.tlc_edges(d, "MC_Node.tla", "Gen_Node_%s_Unlocked.cfg" % sc)
            ws = [w for w in build_walks(edges, rng=rng, n_random=(60 if quick else 400), depth=30, maxlen=36)
                  if in_window(w)]
            rng.shuffle(ws)
            ws = ws[:(40 if quick else 400)]
            ctx.cov["unlocked_window_walks_" + sc] = len(ws)
            for w in ws:
                walks.append({"scn": sc, "variant": True, "steps": [e["o"] for e in w]})
        for pair in RACES.get(sc, []):
            walks.append({"scn": sc, "steps": [{"a": "Race", "s": pair}, {"a": "Restart"}]})
    ctx.log("walks: %d" % len(walks))
    cases = os.path.join(ctx.scratch, "cases.json")
    with open(cases, "w") as fh:
        json.dump({"walks": walks}, fh)
    shards = 12
    files = ctx.go_harness_sharded("kernel", "^TestVerifPipelineReplay$", shards, env={"VERIF_CASES": cases}, timeout=2400)
    events = []
    for f in files:
        events += read_ndjson(f)
    traces = split_traces(events)
    ctx.evaluations += sum(1 for e in events if e["ev"] in ("Call", "Crash", "Restart"))
    ctx.distinct += len({json.dumps([(e.get("s"), e.get("call"), e["ev"]) for e in t[1]]) for t in traces
                        if any(e["ev"] == "Restart" for e in t[1])})
    ctx.rule += ("every transition of the TLC state graphs of the scenarios %s (all interleavings of the per-chain "
                "finalization handlers at storage-call granularity, a process stop between any two calls, restart) "
                "replayed on a real kernel.Node by greedy edge-cover walks plus seeded random walks; distinct = "
                "distinct recorded executions that contain a stop and a restart; plus free-running two-handler races with one slow "
                "snapshot write and a stop right after it (commit order = position order)" % scns)
    ctx.samples += [[(e.get("s", ""), e.get("call", e["ev"])) for e in t[1]][:40] for t in traces[:2]]
    restarts = sum(1 for e in events if e["ev"] == "Restart")
    ctx.cov["restarts_observed"] = restarts
    # ---- E2 per scenario
    by_scn = {}
    for first, evs in traces:
        by_scn.setdefault(evs[0].get("scn"), []).append(evs)
    reached = set()
    for sc, tlist in by_scn.items():
        path = os.path.join(ctx.scratch, "trace_%s.ndjson" % sc)
        with open(path, "w") as fh:
            for evs in tlist:
                for e in evs:
                    fh.write(json.dumps(e) + "\n")
        flat = [e for evs in tlist for e in evs]
        cfg_with_known(d, "Trace_Node_%s_full.cfg" % sc, all_known)
        r = ctx.tlc_trace(d, "Trace_Node.tla", "Trace_Node_%s_full.cfg" % sc, path)
        if r["accepted"]:
            ctx.traces += len(tlist)
            ctx.log("E2 full conformance %s: %d traces / %d lines accepted" % (sc, len(tlist), len(flat)))
        else:
            ctx.log("E2 full conformance %s rejected at line %s (%s); running the %s monitor"
                    % (sc, r["line"], r["invariant"], ctx.pid))
            ctx.mismatches.append({"scenario": sc, "line": r["line"], "invariant": r["invariant"],
                                   "event": flat[r["line"] - 1] if r["line"] and r["line"] <= len(flat) else None})
            cfg_with_known(d, "Trace_Node_%s_%s.cfg" % (sc, ctx.pid), mine)
            r2 = ctx.tlc_trace(d, "Trace_Node.tla", "Trace_Node_%s_%s.cfg" % (sc, ctx.pid), path)
            if r2["accepted"]:
                ctx.traces += len(tlist)
                ctx.notes.append("scenario %s: conformance mismatch not forbidden by %s" % (sc, ctx.pid))
            else:
                line = r2["line"] or 1
                pos = 0
                bad = tlist[-1]
                for evs in tlist:
                    if pos < line <= pos + len(evs):
                        bad = evs
                        break
                    pos += len(evs)
                ctx.violation("after a stop and restart the real node violates %s (scenario %s, line %d: %s)"
                              % (ctx.pid, sc, line, json.dumps(flat[line - 1])[:600] if line <= len(flat) else "?"),
                              {"scenario": sc, "trace": bad, "failing_index": line - pos})
        # which known findings were actually reached by the real code in this run
        for e in flat:
            if e["ev"] != "Restart":
                continue
            o = e["obs"]
            if ctx.pid == "C21" and "C21-1" in mine:
                cons = {"P2": {"X"}, "P": {"X"}, "Q": {"X"}, "A": {"X"}, "M": {"X"}}.get(sc, set())
                t = o["topo"]
                mpos = t.index(o["marker"]) + 1 if o["marker"] in t else 0
                if any(s in cons and mpos < i + 1 for i, s in enumerate(t)):
                    reached.add("C21-1")
            if ctx.pid == "C22" and "C22-1" in mine and o["setup"] != "ok" and o["head"].get("N") == 0:
                reached.add("C22-1")
    for k in ctx.known():
        if k["id"] in reached:
            ctx.known_reached.append("%s %s" % (k["id"], k["text"]))
    if race_only:
        return
    ctx.assumptions += [
        "every storage call is an atomic, synchronously durable Badger transaction (SyncWrites), so a process stop leaves exactly the completed calls",
        "interleavings are controlled at storage-call boundaries; in-memory races between handlers are not explored",
        "scenarios use a fresh 7-node network id, so mainnet-only legacy branches are out of scope",
    ]
