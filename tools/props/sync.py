"""Graph synchronisation (spec/Sync) - growth of the specification beyond the listed properties.

Not a listed property (PROPS is empty): run_sync(ctx) is called from the thorough tier of C35
(tools/props/ledger.py), the property about the local topological order as a cursor, which
p2p/sync.go relies on.

E3  MC_Sync: bounded model of p2p/sync.go (offset from the published graph, head push, stream since
    the offset with the 200 limit / skip / FUTURE rules, scaled) against a remote node that admits
    final snapshots by the kernel's rules; safety statements, progress under fairness, non-vacuity
    witnesses, and the statements that are NOT expected to hold (efficiency; TLC exhibits the shapes).
E1  behaviours of the model (edge cover of a small exhaustive graph + seeded simulation of larger
    ones) and seeded large graphs at the code's real constants (threshold 10, limit 200) are executed
    by the REAL functions on a real Peer over a real BadgerStore (harness/inpkg/p2p/zz_verif_sync_test.go).
E2  Trace_Sync: full conformance of every recorded call (offset, sent sequence, transactions first,
    stop class, store reads, loop glue); if rejected, the C35 monitor (a cursor listing returns exactly
    the stored snapshots from that position in order): only its rejection is a violation of C35; a
    rejection by the monitor of the other safety statements is recorded as a note / mismatch.
"""
import json, os, random, sys
from concurrent.futures import ThreadPoolExecutor

sys.path.insert(0, os.path.dirname(os.path.dirname(os.path.abspath(__file__))))
from vlib import build_walks, read_ndjson, split_traces, Infra

PROPS = []

NC = 3

SAFETY = ["MC_Sync_late.cfg", "MC_Sync_faults.cfg", "MC_Sync_refs.cfg", "MC_Sync_steps.cfg",
          "MC_Sync_interleave.cfg", "MC_Sync_head3.cfg"]
WITNESS = [("MC_Sync_ReachFuture.cfg", "ReachFuture"), ("MC_Sync_ReachOK.cfg", "ReachOK"),
           ("MC_Sync_ReachSkip.cfg", "ReachSkip"), ("MC_Sync_ReachAheadSkip.cfg", "ReachAheadSkip"),
           ("MC_Sync_ReachDone.cfg", "ReachDone"), ("MC_Sync_ReachLate.cfg", "ReachLate")]
# statements that do not hold (findings about efficiency / about what the offset is), with the bound on passes
FINDINGS = [("MC_Sync_NoWaste.cfg", "NoWaste"), ("MC_Sync_NoWastedScan.cfg", "NoWastedScan"),
            ("MC_Sync_NoRescan.cfg", "NoRescan"), ("MC_Sync_NoRescanFresh.cfg", "NoRescanFresh"),
            ("MC_Sync_OffsetBeforeAhead.cfg", "OffsetBeforeAhead"), ("MC_Sync_PassBound2.cfg", "PassBound2")]
HOLDS = ["MC_Sync_OffsetBeforeAhead_inorder.cfg", "MC_Sync_PassBound3.cfg"]
LIVE = ["MC_Sync_live.cfg", "MC_Sync_live_steps.cfg", "MC_Sync_live_interleave.cfg", "MC_Sync_live_late.cfg"]


def step_of(o):
    op = o["op"]
    if op == "Grow":
        return {"op": op, "c": o["c"], "n": o["n"], "t": o["t"], "new": o["new"], "e": o["e"], "m": o["m"]}
    if op == "Publish":
        return {"op": op, "g": list(o["g"])}
    if op == "Head":
        return {"op": op, "c": o["c"], "fails": sorted(o["fails"])}
    if op == "Since":
        return {"op": op, "fail": o["fail"]}
    if op in ("Elsewhere", "Admit"):
        return {"op": op, "i": o["i"]}
    if op in ("Ahead", "Close"):
        return {"op": op, "c": o["c"]}
    return {"op": op}


def sim_paths(walks):
    """tlc -simulate evaluates the ACTION_CONSTRAINT (and so prints an edge) for EVERY candidate successor
    of the current state before it picks one: regroup the emitted edges by their source state and keep,
    in each group, the edge that leads to the source of the next group (the successor actually taken)."""
    from vlib import canon
    edges = [e for w in walks for e in w]
    if not edges:
        return []
    init = canon(edges[0]["from"])
    groups = []
    for e in edges:
        k = canon(e["from"])
        if groups and groups[-1][0] == k:
            groups[-1][1].append(e)
        else:
            groups.append((k, [e]))
    paths, cur = [], []
    for gi, (k, es) in enumerate(groups):
        if k == init and cur:
            paths.append(cur)
            cur = []
        nxt = groups[gi + 1][0] if gi + 1 < len(groups) else None
        chosen = next((e for e in es if canon(e["to"]) == nxt), None)
        if chosen is None:
            # last step of a behaviour (the next group starts again at the initial state)
            cur.append(es[0])
            paths.append(cur)
            cur = []
            continue
        cur.append(chosen)
    if cur:
        paths.append(cur)
    return [p for p in paths if p and canon(p[0]["from"]) == init]


# ---------------------------------------------------------------- large graphs at the real constants
def big_walk(rng, wid, shape, threshold, loops=0.3):
    """A seeded local graph (three chains) large enough for the real FUTURE bound (2*threshold rounds)
    and the real 200 limit, then passes of the loop against remote states that are prefixes of the
    local order (any prefix of a topological order is closed under the kernel's admission rules)."""
    L = [(c, 0, 0) for c in range(1, NC + 1)]
    head = {c: 1 for c in range(1, NC + 1)}          # head round (lfin + 1)
    inhead = {c: [] for c in range(1, NC + 1)}       # timestamps in the head round
    steps = []

    def grow(c, new=False, early=False):
        if new:
            e = rng.choice([x for x in range(1, NC + 1) if x != c])
            head[c] += 1
            inhead[c] = [0]
            L.append((c, head[c], 0))
            steps.append({"op": "Grow", "c": c, "n": head[c], "t": 0, "new": True, "e": e, "m": head[e] - 1})
            return
        ts = inhead[c]
        t = 0 if not ts else (min(ts) - 1 if early else max(ts) + 1)
        ts.append(t)
        L.append((c, head[c], t))
        steps.append({"op": "Grow", "c": c, "n": head[c], "t": t, "new": False, "e": 0, "m": 0})

    if shape == "deep":
        # one chain runs far ahead of the others: the stream meets the FUTURE bound
        total, weights = rng.randrange(90, 160), [8, 1, 1]
        pnew = 0.75
    elif shape == "wide":
        # many snapshots per round: batches of 200, the cursor re-reads its last position
        total, weights = rng.randrange(420, 640), [3, 3, 2]
        pnew = 0.12
    else:
        # a chain that stopped long ago (removed node): everything behind it is streamed again
        total, weights = rng.randrange(260, 420), [1, 4, 4]
        pnew = 0.3
    stale_until = rng.randrange(20, 60) if shape == "stale" else 0
    for k in range(total):
        if shape == "stale":
            c = 1 if k < stale_until else rng.choice([2, 3])
        else:
            c = rng.choices([1, 2, 3], weights)[0]
        if inhead[c] and rng.random() < pnew:
            grow(c, new=True)
        else:
            grow(c, early=bool(inhead[c]) and rng.random() < 0.15)

    def remote_of(k):
        held = L[:k]
        mx = {c: max(n for (cc, n, _) in held if cc == c) for c in range(1, NC + 1)}
        rfin = [max(0, mx[c] - 1) for c in range(1, NC + 1)]
        rcache = [i + 1 for i, (c, n, _) in enumerate(held) if n == rfin[c - 1] + 1]
        return rfin, rcache

    n = len(L)
    ks = sorted({NC, rng.randrange(NC, max(NC + 1, n // 6)), rng.randrange(n // 6, n // 2 + 1), rng.randrange(n // 2, n), n})
    if shape == "stale":
        ks = sorted(set(ks) | {NC + rng.randrange(1, max(2, stale_until // 2))})
    prev = None
    for k in ks:
        rfin, rcache = remote_of(k)
        steps.append({"op": "RemoteSet", "rfin": rfin, "rcache": rcache})
        r = rng.random()
        if prev is not None and r < 0.3:
            # an older graph read first in the same poll (the last non-zero offset survives)
            steps += [{"op": "RemoteSet", "rfin": prev[0], "rcache": prev[1]}, {"op": "Publish", "g": prev[0]},
                      {"op": "RemoteSet", "rfin": rfin, "rcache": rcache}, {"op": "Publish", "g": rfin},
                      {"op": "Poll"}, {"op": "Poll"}]
        elif prev is not None and r < 0.3 + loops:
            # the same through the REAL getSyncPointOffset (about two seconds)
            steps += [{"op": "RemoteSet", "rfin": prev[0], "rcache": prev[1]}, {"op": "Publish", "g": prev[0]},
                      {"op": "RemoteSet", "rfin": rfin, "rcache": rcache}, {"op": "Publish", "g": rfin},
                      {"op": "PollLoop", "g": rfin}]
        else:
            steps += [{"op": "Publish", "g": rfin}, {"op": "Poll"}]
        fail = rng.randrange(k + 1, n + 1) if (k < n and rng.random() < 0.3) else 0
        fails = [rng.randrange(k + 1, n + 1)] if (k < n and rng.random() < 0.3) else []
        steps.append({"op": "Pass", "max": 12, "fail": fail, "fails": fails})
        steps.append({"op": "Settle"})
        prev = (rfin, rcache)
    return {"id": wid, "nc": NC, "late": [], "steps": steps}


def write_cfgs(d, threshold):
    for mode in ("full", "monitor", "C35"):
        with open(os.path.join(d, "Trace_Sync_%s.cfg" % mode), "w") as fh:
            fh.write("SPECIFICATION Spec\nCONSTANTS\n  Mode = \"%s\"\n  Chains = {1, 2, 3}\n  Slack = 2\n  HeadSpan = %d\n"
                     "  FutureSpan = %d\n  Limit = 200\n  Window = 800\nCONSTRAINT HW\nINVARIANT Inv\nPOSTCONDITION Accepted\n"
                     "CHECK_DEADLOCK FALSE\n" % (mode, threshold + 2, threshold * 2))


def chunks_of(events, n):
    traces = split_traces(events)
    per = max(1, (len(traces) + n - 1) // n)
    out = []
    for i in range(0, len(traces), per):
        part = traces[i:i + per]
        evs = [e for _, t in part for e in t]
        out.append((part[0][0] - 1, evs))
    return out


def validate(ctx, d, events, parallel=6):
    """Full conformance; a rejected chunk goes to the C35 monitor (violation) and to the monitor of the
    other safety statements (note). Returns (#traces accepted by the full pass, summary)."""
    parts = chunks_of(events, parallel)
    files = []
    for off, evs in parts:
        p = os.path.join(ctx.scratch, "sync_chunk_%d.ndjson" % off)
        with open(p, "w") as fh:
            for e in evs:
                fh.write(json.dumps(e) + "\n")
        files.append((off, evs, p))

    def one(item):
        return item, ctx.tlc_trace(d, "Trace_Sync.tla", "Trace_Sync_full.cfg", item[2], timeout=2400, xss=True)

    with ThreadPoolExecutor(max_workers=parallel) as ex:
        results = list(ex.map(one, files))
    ok_traces, rejected = 0, []
    for (off, evs, p), r in results:
        ntr = sum(1 for e in evs if e["ev"] == "Reset")
        if r["accepted"]:
            ok_traces += ntr
            continue
        line = r["line"] or 1
        ev = evs[line - 1] if line <= len(evs) else {}
        short = {k: v for k, v in ev.items() if k != "reads"}
        ctx.log("sync E2 full conformance rejected at event %d (%s): %s" % (off + line, r["invariant"], json.dumps(short)[:400]))
        ctx.mismatches.append({"module": "Sync", "index": off + line, "event": short})
        rejected.append(off + line)
        ok_traces += max(0, sum(1 for e in evs[:line] if e["ev"] == "Reset") - 1)
        r35 = ctx.tlc_trace(d, "Trace_Sync.tla", "Trace_Sync_C35.cfg", p, timeout=2400, xss=True)
        if not r35["accepted"]:
            l2 = r35["line"] or 1
            bad = evs[l2 - 1] if l2 <= len(evs) else {}
            # the walk that contains the event, for the replay file
            first = max(i for i, e in enumerate(evs[:l2]) if e["ev"] == "Reset")
            ctx.violation("a cursor listing of the real store (ReadSnapshotsSinceTopology as called by p2p/sync.go) does not "
                          "return exactly the stored snapshots from the first position >= cursor, in order, each with its own "
                          "position (C35); event %d: %s" % (off + l2, json.dumps({k: bad.get(k) for k in ("ev", "in", "off", "cls", "reads")})[:700]),
                          {"trace": evs[first:l2], "failing_index": l2 - first,
                           "how": "VERIF_SEED=%d python3 tools/vcheck.py C35 --tier thorough" % ctx.seed})
            if len(ctx.violations) >= 2:
                break
            continue
        rm = ctx.tlc_trace(d, "Trace_Sync.tla", "Trace_Sync_monitor.cfg", p, timeout=2400, xss=True)
        if rm["accepted"]:
            ctx.notes.append("graph synchronisation: conformance mismatch at recorded event %d, not forbidden by C35 and by none of "
                             "the safety statements of spec/Sync" % (off + line))
        else:
            l3 = rm["line"] or 1
            bad = evs[l3 - 1] if l3 <= len(evs) else {}
            ctx.notes.append("graph synchronisation: a SAFETY statement of spec/Sync is contradicted by recorded event %d (%s); "
                             "not a statement of C35, recorded as a note" % (off + l3, json.dumps({k: v for k, v in bad.items() if k != "reads"})[:500]))
    return ok_traces, rejected


def run_sync(ctx, quick=None):
    quick = (ctx.tier == "quick") if quick is None else quick
    rng = random.Random(ctx.seed * 7919 + 17)
    d = ctx.specdir("Sync")
    st0 = ctx.states
    # ---------------------------------------------------------------- E3 (+ the emission runs of E1, side by side)
    jobs = [("MC_Sync_quick.cfg" if quick else "MC_Sync.cfg", None, True, 6)]
    if not quick:
        first = ("MC_Sync_ReachSkip.cfg", "MC_Sync_NoWastedScan.cfg", "MC_Sync_PassBound2.cfg")
        jobs += [(c, w, False, 2) for c, w in WITNESS + FINDINGS if c in first]
        jobs += [(c, None, True, 2) for c in SAFETY + HOLDS + LIVE]
        jobs += [(c, w, False, 2) for c, w in WITNESS + FINDINGS if c not in first]
    else:
        jobs += [("MC_Sync_live_steps.cfg", None, True, 2), ("MC_Sync_ReachFuture.cfg", "ReachFuture", False, 2),
                 ("MC_Sync_NoWaste.cfg", "NoWaste", False, 2)]
    if os.environ.get("VERIF_SYNC_SKIP_MC"):      # development aid only
        jobs = []

    def mc(job):
        cfg, wit, count, workers = job
        return cfg, ctx.tlc_mc(d, "MC_Sync.tla", cfg, workers=workers, timeout=3000, expect_violation=wit, count=count)

    sims = (("Gen_Sync_sim.cfg", 40 if quick else 120, 60, []), ("Gen_Sync_sim_late.cfg", 20 if quick else 60, 60, [3]))
    with ThreadPoolExecutor(max_workers=5) as ex:
        if quick:
            fcover = ex.submit(ctx.tlc_sim, d, "MC_Sync.tla", "Gen_Sync.cfg", 60, 40, 900)
        else:
            fcover = ex.submit(ctx.tlc_edges, d, "MC_Sync.tla", "Gen_Sync.cfg", 2400)
        fsims = [(ex.submit(ctx.tlc_sim, d, "MC_Sync.tla", cfg, num, depth, 1800), late) for cfg, num, depth, late in sims]
        res = dict(ex.map(mc, jobs))
        cover = fcover.result()
        simres = [(f.result(), late) for f, late in fsims]
    ctx.cov["sync_model_states"] = {c: r["distinct"] for c, r in res.items() if r["distinct"]}
    ctx.cov.setdefault("witnesses_reached", [])
    ctx.cov["witnesses_reached"] += ["sync: %s" % w for c, w in WITNESS if c in res]
    ctx.cov["sync_statements_that_do_not_hold"] = [w for c, w in FINDINGS if c in res]
    # ---------------------------------------------------------------- E1
    walks = []
    if quick:
        for w in sim_paths(cover):
            walks.append([step_of(e["o"]) for e in w])
    else:
        ws = build_walks(cover, rng=rng, n_random=0, maxlen=45)
        rng.shuffle(ws)
        ctx.cov["sync_edge_cover_walks"] = len(ws)
        ctx.cov["sync_edges"] = len(cover)
        for w in ws[:400]:
            walks.append([step_of(e["o"]) for e in w])
        del ws
    del cover
    cases = [{"id": "t%d" % i, "nc": NC, "late": [], "steps": w} for i, w in enumerate(walks)]
    for sw, late in simres:
        for w in sim_paths(sw):
            cases.append({"id": "s%d" % len(cases), "nc": NC, "late": late, "steps": [step_of(e["o"]) for e in w]})
    threshold = 10
    nbig = 6 if quick else 24
    for i in range(nbig):
        cases.append(big_walk(rng, "b%d" % i, ("deep", "wide", "stale")[i % 3], threshold))
    cpath = os.path.join(ctx.scratch, "sync_cases.json")
    with open(cpath, "w") as fh:
        json.dump({"walks": cases, "workers": 40}, fh)
    trace = os.path.join(ctx.scratch, "sync_trace.ndjson")
    ctx.go_harness("p2p", "^TestVerifSync$", env={"VERIF_CASES": cpath, "VERIF_TRACE": trace}, timeout=2700)
    events = read_ndjson(trace)
    if os.environ.get("VERIF_SYNC_KEEP_TRACE"):
        import shutil
        shutil.copy(trace, os.environ["VERIF_SYNC_KEEP_TRACE"])
    if any(e["ev"] == "Abort" for e in events):
        bad = next(e for e in events if e["ev"] == "Abort")
        raise Infra("sync harness could not build a world: %s" % bad.get("detail"))
    thr = {e["threshold"] for e in events if e["ev"] == "Reset"}
    if len(thr) != 1:
        raise Infra("sync harness reported no / several thresholds: %s" % thr)
    write_cfgs(d, thr.pop())
    # ---------------------------------------------------------------- E2
    ok, rejected = validate(ctx, d, events)
    calls = [e for e in events if e["ev"] in ("Poll", "Head", "Since")]
    since = [e for e in events if e["ev"] == "Since"]
    stats = {
        "walks": len(cases), "events": len(events), "calls": len(calls),
        "poll": sum(1 for e in calls if e["ev"] == "Poll"), "head": sum(1 for e in calls if e["ev"] == "Head"),
        "real_poll_loops": sum(1 for e in events if e["ev"] == "PollLoop"),
        "since": len(since), "classes": {c: sum(1 for e in since if e["cls"] == c) for c in ("OK", "EOF", "FUTURE", "ERR")},
        "snapshots_stored": sum(1 for e in events if e["ev"] == "Grow"), "snapshots_sent": sum(len(e["sent"]) for e in calls if "sent" in e),
        "largest_store": max([e["p"] + 1 for e in events if e["ev"] == "Grow"] or [0]),
        "accepted_traces": ok, "rejected_at": rejected, "model_states": ctx.states - st0,
    }
    ctx.cov["sync"] = stats
    ctx.traces += ok
    ctx.evaluations += len(calls)
    ctx.distinct += len({json.dumps({k: v for k, v in e.items() if k != "reads"}, sort_keys=True) for e in calls})
    ctx.log("sync: %s" % json.dumps(stats))
    ctx.assumptions += [
        "graph synchronisation (spec/Sync): the remote node is abstract (final round per chain, head-round contents, final pool) "
        "and admits by the rules read from kernel/chain.go and kernel/cosi.go; delivery into its pool is reliable; the sender's "
        "one-minute / one-hour duplicate suppression caches are not modelled",
        "the loop functions getSyncPointOffset / syncToNeighborLoop are not run (they sleep); their glue is replayed by the harness "
        "step by step and checked by the trace specification",
    ]
    return stats


if __name__ == "__main__":
    # stand-alone driver (development / demonstrations): python3 tools/props/sync.py --tier thorough ; the
    # evidence goes to VERIF_EVIDENCE_DIR (default /tmp/growsync/evidence, never /verif/evidence/C35.json);
    # VERIF_SYNC_SKIP_MC=1 leaves the E3 runs out, VERIF_SYNC_KEEP_TRACE=<file> keeps the recorded trace
    import vlib
    if not os.environ.get("VERIF_EVIDENCE_DIR"):
        os.environ["VERIF_EVIDENCE_DIR"] = "/tmp/growsync/evidence"
    vlib.main(lambda ctx, a: run_sync(ctx), "C35")
