"""C26 - node work is credited exactly once per snapshot (spec/Rounds/Work.tla, MC_Work, Trace_Work;
harness storage/zz_verif_work on a real BadgerStore)."""
import json, os, random

PROPS = ["C26"]
from vlib import build_walks, read_ndjson, split_traces, Infra


def run(ctx, args):
    quick = ctx.tier == "quick"
    rng = random.Random(ctx.seed)
    d = ctx.specdir("Rounds")
    # ---- E3: all monotone submission sequences (exhaustive)
    ctx.tlc_mc(d, "MC_Work.tla", "MC_Work.cfg" if quick else "MC_Work_thorough.cfg", workers=8, timeout=3000)
    ctx.tlc_mc(d, "MC_Work.tla", "MC_Work_ReachGrow.cfg", workers=4, timeout=600, expect_violation="ReachGrow", count=False)
    # concurrent chains: every interleaving of two scripts with conflicts (atomic optimistic transactions)
    ctx.tlc_mc(d, "MC_WorkConc.tla", "MC_WorkConc.cfg", workers=4, timeout=600)
    ctx.tlc_mc(d, "MC_WorkConc.tla", "MC_WorkConc_ReachEnd.cfg", workers=4, timeout=600, expect_violation="ReachEnd", count=False)
    ctx.exhaustive = True
    # ---- E1: every edge of every world -> walks on a real store
    edges = ctx.tlc_edges(d, "MC_Work.tla", "Gen_Work.cfg" if quick else "Gen_Work_thorough.cfg", timeout=3000)
    byworld = {}
    for e in edges:
        byworld.setdefault(json.dumps(e["from"]["w"], sort_keys=True), []).append(e)
    walks = []
    restarts = 0
    max_restarts = 40 if quick else 400
    for wk in sorted(byworld):
        ws = build_walks(byworld[wk], rng=rng, n_random=(15 if quick else 150), depth=8, maxlen=24)
        for w in ws:
            ops = []
            for e in w:
                o = e["o"]
                snaps = [{"id": s["id"], "day": s["day"], "signers": sorted(s["signers"])} for s in o["snaps"]]
                if rng.random() < 0.3:
                    rng.shuffle(snaps)       # the submitted order is irrelevant inside the domain
                if restarts < max_restarts and rng.random() < 0.04:
                    ops.append({"op": "Restart"})
                    restarts += 1
                ops.append({"op": "Submit", "round": o["round"], "credit": o["credit"], "snaps": snaps})
            walks.append(ops)
    ctx.log("walks: %d covering %d edges in %d worlds, %d restarts" % (len(walks), len(edges), len(byworld), restarts))
    cases = os.path.join(ctx.scratch, "cases26.json")
    with open(cases, "w") as fh:
        json.dump({"walks": walks, "conc": 150 if quick else 2500}, fh)
    trace = os.path.join(ctx.scratch, "trace26.ndjson")
    ctx.go_harness("storage", "^TestVerifWork$", env={"VERIF_CASES": cases, "VERIF_TRACE": trace})
    events = read_ndjson(trace)
    traces = split_traces(events)
    ctx.log("harness done: %d lines" % len(events))
    subs = [e for e in events if e["ev"] == "Submit"]
    conc = [e for e in events if e["ev"] == "Conc"]
    ctx.evaluations = (len(subs) + sum(1 for e in events if e["ev"] == "Restart")
                       + sum(sb["tries"] for e in conc for ch in e["chains"] for sb in ch["subs"]))
    ctx.cov["concurrent_scenarios"] = len(conc)
    ctx.cov["concurrent_submissions"] = sum(len(ch["subs"]) for e in conc for ch in e["chains"])
    ctx.cov["transaction_conflicts_retried"] = sum(sb["tries"] - 1 for e in conc for ch in e["chains"] for sb in ch["subs"])
    ctx.distinct = len({json.dumps([[e.get("round"), e.get("credit"), e.get("snaps")] for e in t[1] if e["ev"] == "Submit"], sort_keys=True)
                        for t in traces if sum(1 for e in t[1] if e["ev"] == "Submit") >= 2})
    ctx.cov["restarts"] = sum(1 for e in events if e["ev"] == "Restart")
    ctx.cov["resubmissions_same_round"] = sum(1 for t in traces for a, b in zip(t[1], t[1][1:])
                                              if a["ev"] == "Submit" and b["ev"] == "Submit" and a["round"] == b["round"])
    ctx.rule = ("every edge of the exhaustive TLC state graph of MC_Work (all worlds: credit flag and day per round, signer table) "
                "replayed on a real BadgerStore (WriteRoundWork, read back with ReadWorkOffset / stored checkpoint / ListNodeWorks), "
                "seeded random walks, seeded store restarts and slice orders; plus seeded concurrent scenarios (2-8 chains as goroutines "
                "submitting monotone scripts with shared signers, retrying on transaction conflicts like kernel/mint.go, judged by "
                "WorkInvAll on the counters read back); distinct = distinct submission sequences with at "
                "least two submissions")
    ctx.samples = [[[e["ev"], e.get("round"), [s["id"] for s in e.get("snaps", [])], e.get("res")] for e in t[1]][:8]
                   for t in traces[:2] + traces[-2:]]
    r = ctx.tlc_trace(d, "Trace_Work.tla", "Trace_Work_full.cfg", trace, timeout=3000)
    if r["accepted"]:
        ctx.traces = len(traces)
        ctx.log("E2 full conformance: %d traces / %d lines accepted" % (len(traces), len(events)))
    else:
        ctx.log("E2 full conformance rejected at line %s (invariant %s); running the property monitor" % (r["line"], r["invariant"]))
        ctx.mismatches.append({"line": r["line"], "invariant": r["invariant"],
                               "event": events[r["line"] - 1] if r["line"] and r["line"] <= len(events) else None})
        r2 = ctx.tlc_trace(d, "Trace_Work.tla", "Trace_Work_monitor.cfg", trace, timeout=3000)
        if r2["accepted"]:
            ctx.traces = len(traces)
            ctx.notes.append("conformance mismatch not forbidden by this property (see conformance_mismatches)")
        else:
            line = r2["line"] or 1
            bad = traces[-1]
            for first, evs in traces:
                if first <= line < first + len(evs) + 1:
                    bad = (first, evs)
            ctx.traces = sum(1 for first, evs in traces if first + len(evs) <= line)
            ctx.violation("work counters of the real store differ from one credit per accounted snapshot "
                          "(line %d of the trace, event %s)" % (line, json.dumps(events[line - 1]) if line <= len(events) else "?"),
                          {"trace": bad[1], "failing_index": line - bad[0], "invariant": r2["invariant"]})
    ctx.assumptions += [
        "submissions are monotone (round = stored offset with a superset, next round, or an older round with its last set); "
        "non-monotone submissions abort in the code and are outside the property",
        "every snapshot of the chain is signed by the chain's own node and all snapshots of a round share a day (C19); the credit "
        "flag is a constant of the round (kernel: day of the round = day of the next round's first snapshot)",
        "Badger transactions are atomic and durable; goroutine schedules of the concurrent scenarios are sampled, not enumerated "
        "(exhaustive only in MC_WorkConc)",
    ]
