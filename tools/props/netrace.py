"""System-level trace validation (growth, DESIGN.md section 13.5): the repository's own multi-node
test rpc/consensus_test.go is run with the build tag verif; the hooks of storage/verif_hook.go
record every durable graph write of every node; TLC validates the whole trace against
spec/Net/Trace_Net.tla. Used by the thorough tiers of C20, C28 and C35."""
import json, os, signal, subprocess, time
import vlib
from vlib import Infra

PROPS = []


GRAPH_EVENTS = ("WS", "SNR", "UEH", "WCS")      # storage/verif_hook.go (this module's events)
TEST_CMD = [vlib.GO, "test", "-tags", "verif", "-count=1", "-vet=off", "-timeout", "25m", "-run", "^TestConsensus$", "./rpc"]


def record(ctx):
    """One run of the repository's multi-node test with the build tag verif; returns (events, output).
    The file holds the durable-write events of storage/verif_hook.go and, when /repo has them, the CoSi
    protocol events of kernel/verif_hook.go (tools/props/cosinet.py). The test binds fixed localhost
    ports, so it runs inside a private network namespace (parallel checks do not collide); the result is
    remembered on ctx so that netrace.run_net and cosinet.run_cosinet of one check share one run. The
    test is flaky on loaded machines (its own testVerifyInfoAfter assertions): whatever trace was
    recorded is judged, the test's verdict is only noted."""
    if getattr(ctx, "_net_record", None):
        return ctx._net_record
    trace = os.path.join(ctx.scratch, "net.ndjson")
    e = vlib.goenv()
    e["VERIF_NET_TRACE"] = trace
    e["TMPDIR"] = ctx.harness_tmp()
    out = ""
    netns = True
    for attempt in range(4):
        if os.path.exists(trace):
            os.remove(trace)
        cmd = TEST_CMD
        if netns:
            cmd = ["unshare", "-n", "bash", "-c", "ip link set lo up && exec " + " ".join("'%s'" % c for c in TEST_CMD)]
        p = subprocess.Popen(cmd, cwd=vlib.REPO, env=e, stdout=subprocess.PIPE, stderr=subprocess.STDOUT, text=True, errors="replace",
                             start_new_session=True)
        try:
            out, _ = p.communicate(timeout=1700)
        except subprocess.TimeoutExpired:
            os.killpg(p.pid, signal.SIGKILL)
            raise Infra("multi-node test timed out")
        if netns and not os.path.exists(trace) and ("unshare" in out or "Operation not permitted" in out or "ip:" in out):
            netns = False            # no private namespace available: run on the host's loopback as before
            continue
        if "address already in use" in out:
            time.sleep(120)
            continue
        break
    else:
        raise Infra("multi-node test could not bind its ports (another instance is running)")
    ctx.checker_cmds.append("unshare -n; VERIF_NET_TRACE=... go1.26 test -tags verif -run ^TestConsensus$ ./rpc")
    if not os.path.exists(trace):
        raise Infra("multi-node test wrote no trace:\n" + out[-2000:])
    events = []
    with open(trace) as fh:
        for line in fh:
            try:
                events.append(json.loads(line))
            except ValueError:       # a line cut short by the end of the test process
                break
    ctx._net_record = (events, out)
    return ctx._net_record


def run_net(ctx):
    d = ctx.specdir("Net")
    events, out = record(ctx)
    events = [ev for ev in events if ev.get("ev") in GRAPH_EVENTS]
    if len(events) < 500:
        raise Infra("multi-node trace too short (%d events):\n%s" % (len(events), out[-1500:]))
    nets = {}
    for ev in events:
        nets.setdefault(ev.get("net", "?"), []).append(ev)
    path = os.path.join(ctx.scratch, "net_grouped.ndjson")
    with open(path, "w") as fh:
        for k in nets:
            fh.write(json.dumps({"ev": "Reset", "net": k}) + "\n")
            for ev in nets[k]:
                fh.write(json.dumps(ev) + "\n")
    flat = []
    for k in nets:
        flat.append({"ev": "Reset", "net": k})
        flat += nets[k]
    ctx.evaluations += len(events)
    ctx.cov["net_trace"] = {"events": len(events), "networks": len(nets), "nodes": len({(e.get("net"), e["node"]) for e in events}),
                            "test_passed": "\nok " in out or out.startswith("ok "),
                            "by_event": {n: sum(1 for e in events if e["ev"] == n) for n in ("WS", "SNR", "UEH", "WCS")}}
    r = ctx.tlc_trace(d, "Trace_Net.tla", "Trace_Net_all.cfg", path, xss=True, timeout=3000)
    if r["accepted"]:
        ctx.traces += len(nets)
        ctx.log("net trace: %d events of %d nodes in %d networks accepted" % (len(events), ctx.cov["net_trace"]["nodes"], len(nets)))
        return
    ctx.mismatches.append({"net_trace_line": r["line"], "event": flat[r["line"] - 1] if r["line"] and r["line"] <= len(flat) else None})
    r2 = ctx.tlc_trace(d, "Trace_Net.tla", "Trace_Net_%s.cfg" % ctx.pid, path, xss=True, timeout=3000)
    if r2["accepted"]:
        ctx.traces += len(nets)
        ctx.notes.append("multi-node trace: a condition of another property is not met (see conformance_mismatches)")
        return
    line = r2["line"] or 1
    ctx.violation("the durable writes of a real multi-node network violate %s at trace line %d: %s"
                  % (ctx.pid, line, json.dumps(flat[line - 1])[:500] if line <= len(flat) else "?"),
                  {"events_before": flat[max(0, line - 40):line], "failing_index": min(39, line - 1)})
