"""C16 / C17 / C35 — ledger histories applied by a real node (spec/Ledger).

E3: TLC enumerates every history (bounded) of signer-side validation and certified application of
snapshot batches over a template universe (deposits near the asset capacity, a transfer chain,
competing spenders, withdrawal submission and claim, three assets) and checks supply conservation
(C17), applicability of validated batches (C16) and structural consistency. E1: every transition is
replayed on a real kernel.Node through validateSnapshotTransaction / cosiHandleFinalization with
real signatures; E2: TLC validates the recorded results, the ledger read back after every step and
the topology listing queries (C35)."""
import json, os, random
from vlib import build_walks, read_ndjson, split_traces, Infra

PROPS = ["C16", "C17", "C35"]


def run(ctx, args):
    quick = ctx.tier == "quick"
    rng = random.Random(ctx.seed)
    d = ctx.specdir("Ledger")
    mine = {k["id"] for k in ctx.known()}
    all_known = set()
    kf = os.environ.get("VERIF_KNOWN") or os.path.join(os.path.dirname(os.path.dirname(os.path.dirname(os.path.abspath(__file__)))), "known_findings.json")
    try:
        for k in json.load(open(kf)).get("known", []):
            if k["property"] == "C16":
                all_known.add(k["id"])
    except OSError:
        pass
    def kn_name(ids):
        ids = set(ids) & {"C16-1", "C16-2"}
        return {frozenset(): "None", frozenset({"C16-1"}): "1", frozenset({"C16-2"}): "2",
                frozenset({"C16-1", "C16-2"}): "All"}[frozenset(ids)]
    kn_all = kn_name(all_known)
    kn_mine = kn_name(mine) if ctx.pid == "C16" else kn_all
    fams = ["S"] if quick else ["S", "R"]
    for f in fams:
        ctx.tlc_mc(d, "MC_Ledger.tla", "MC_Ledger_%s_%s.cfg" % (f, kn_all), workers=12, timeout=3000, xss=True)
    ctx.exhaustive = True
    if all_known:
        ctx.tlc_mc(d, "MC_Ledger.tla", "MC_Ledger_S_None.cfg", workers=8, timeout=1200, xss=True,
                   expect_violation="C16Prop", count=False)
    walks = []
    for f in ["S", "R"]:
        if quick:
            ws = ctx.tlc_sim(d, "MC_Ledger.tla", "Gen_Ledger_%s.cfg" % f, num=70, depth=9, xss=True)
        else:
            edges = ctx.tlc_edges(d, "MC_Ledger.tla", "Gen_Ledger_%sq.cfg" % f, xss=True, timeout=3000)
            ws = build_walks(edges, rng=rng, n_random=0, maxlen=14)
            rng.shuffle(ws)
            ws = ws[:1500] + ctx.tlc_sim(d, "MC_Ledger.tla", "Gen_Ledger_%s.cfg" % f, num=300, depth=12, xss=True)
        for w in ws:
            walks.append({"fam": f, "steps": [{"op": e["o"]["op"], "b": e["o"]["b"]} for e in w]})
    # directed deep histories (every step is checked against the model by the trace specification):
    # the whole withdrawal chain up to a second claim, capacity and asset-record conflicts
    def V(*b):
        return {"op": "Validate", "b": list(b)}

    def A(*b):
        return {"op": "Apply", "b": list(b)}

    def F(*b):
        return {"op": "ApplyF", "b": list(b)}
    deep = [
        ("R", [V("D1"), A("D1"), V("T1"), A("T1"), V("W1"), A("W1"), V("X1"), A("X1"), V("K1"), A("K1"), V("K2"), A("K2")]),
        ("R", [V("D1", "D3"), A("D1", "D3"), V("T1", "X1"), A("T1", "X1"), V("T2", "W1"), A("T2", "W1"), V("K1"), A("K1"), V("K2"), A("K2"), V("T3")]),
        ("S", [V("D6"), V("D1"), A("D6"), V("D3"), A("D1")]),
        ("S", [V("D1"), V("D2"), A("D1"), A("D2")]),
        ("S", [V("D1", "D2"), A("D1", "D2")]),
        ("S", [V("D1"), A("D1"), V("D3"), A("D3"), V("D5"), V("T1", "W1"), V("T1"), A("T1"), V("W1"), A("W1"), V("D5")]),
        ("S", [V("D6", "D3"), A("D6", "D3")]),
        ("R", [V("D1"), A("D1"), V("T1"), A("T1"), V("T2"), V("D3"), A("D3"), V("T2"), V("T3"), A("T2"), V("T3")]),
        # a competing spender certified by the other nodes displaces this node's pending transaction, which is
        # then offered again (and, at the end, its certificate is delivered if the node still holds it)
        ("R", [V("D1"), A("D1"), V("T1"), A("T1"), V("D3"), A("D3"), V("T2"), F("T3"), V("T2")]),
        ("R", [F("D1"), F("D3", "T1"), V("T3"), F("T2"), V("T3"), V("TI"), V("W1"), A("W1")]),
        ("R", [F("D1"), F("T1"), V("D3"), V("T2"), A("D3"), V("T2", "TI"), V("T2"), F("T3"), V("T2")]),
        # a claim offered while the submission it references is only pending; malformed submissions
        ("R", [V("D1"), A("D1"), V("T1"), A("T1"), V("X1"), A("X1"), V("W1"), V("K1"), V("WY")]),
        ("S", [V("D1"), A("D1"), V("T1"), A("T1"), V("WX"), V("W1"), V("WX")]),
        ("R", [F("D1"), F("T1"), V("WY"), V("W1", "WY"), V("W1"), A("W1")]),
        ("R", [F("D1"), F("T1"), V("WY"), V("T3"), A("T3")]),
        ("S", [F("D1"), F("T1"), V("WX"), V("D3"), A("D3")]),
        # outputs that do not add up to the inputs
        ("S", [V("D3"), A("D3"), V("TD"), V("D1", "TD"), V("D1"), A("D1")]),
        ("R", [F("D3"), V("TI"), V("D1", "TI"), V("D4")]),
    ]
    for fam, steps in deep:
        walks.append({"fam": fam, "steps": steps})
    ctx.log("walks: %d" % len(walks))
    cases = os.path.join(ctx.scratch, "cases.json")
    with open(cases, "w") as fh:
        json.dump({"walks": walks}, fh)
    files = ctx.go_harness_sharded("kernel", "^TestVerifLedgerReplay$", 14, env={"VERIF_CASES": cases}, timeout=3000)
    events = []
    for f in files:
        events += read_ndjson(f)
    traces = split_traces(events)
    trace = os.path.join(ctx.scratch, "trace.ndjson")
    with open(trace, "w") as fh:
        for e in events:
            fh.write(json.dumps(e) + "\n")
    ctx.evaluations += sum(1 for e in events if e["ev"] in ("Validate", "Apply", "ApplyF"))
    ctx.distinct += len({json.dumps([(e["ev"], e.get("b"), e.get("res")) for e in t[1]]) for t in traces})
    ctx.rule += ("behaviours of spec/Ledger generated by TLC (quick: seeded simulation of families S and R; thorough: edge-cover "
                "walks of the bounded exhaustive state graphs plus simulation) replayed on a real kernel.Node, one fresh node per walk; distinct = distinct recorded histories (operation, batch, result)")
    ctx.samples = [[(e["ev"], e.get("b"), e.get("res")) for e in t[1]] for t in traces[:3]]
    r = ctx.tlc_trace(d, "Trace_Ledger.tla", "Trace_Ledger_full_%s.cfg" % kn_all, trace, xss=True)
    if r["accepted"]:
        ctx.traces = len(traces)
        ctx.log("E2 full conformance: %d traces / %d lines accepted" % (len(traces), len(events)))
    else:
        ctx.log("E2 full conformance rejected at line %s (%s); running the %s monitor" % (r["line"], r["invariant"], ctx.pid))
        ctx.mismatches.append({"line": r["line"], "invariant": r["invariant"],
                               "event": (events[r["line"] - 1] if r["line"] and r["line"] <= len(events) else None)})
        r2 = ctx.tlc_trace(d, "Trace_Ledger.tla", "Trace_Ledger_%s_%s.cfg" % (ctx.pid, kn_mine), trace, xss=True)
        if r2["accepted"]:
            ctx.traces = len(traces)
            ctx.notes.append("conformance mismatch not forbidden by %s" % ctx.pid)
        else:
            line = r2["line"] or 1
            bad = traces[-1]
            for first, evs in traces:
                if first <= line < first + len(evs):
                    bad = (first, evs)
            ev = events[line - 1] if line <= len(events) else {}
            short = {k: ev.get(k) for k in ("ev", "b", "res", "detail")}
            ctx.violation("recorded ledger history of the real node violates %s at line %d: %s obs=%s"
                          % (ctx.pid, line, json.dumps(short), json.dumps(ev.get("obs", {}))[:500]),
                          {"trace": [{k: e.get(k) for k in ("ev", "b", "res", "obs", "queries")} for e in bad[1]],
                           "failing_index": line - bad[0]})
    if ctx.pid == "C16" and mine:
        prev = None
        for e in events:
            if e["ev"] == "Apply" and e.get("res") in ("panic", "rejected") and prev is not None:
                alt_in = any(t == "D6" for t in e["b"])
                kid = "C16-2" if (alt_in or prev["obs"]["ainfo"].get("BTC") == "alt") and any(t.startswith("D") for t in e["b"]) else "C16-1"
                for k in ctx.known():
                    if k["id"] == kid:
                        s = "%s %s" % (k["id"], k["text"])
                        if s not in ctx.known_reached:
                            ctx.known_reached.append(s)
            prev = e
    if ctx.pid == "C35":
        # positions are assigned under the lock that covers the write: raced finalizations on a real node
        import pipeline
        pipeline.run(ctx, args, race_only=True)
        if ctx.tier == "thorough":
            import netrace
            netrace.run_net(ctx)
            # graph synchronisation relies on the topological order as a cursor (spec/Sync)
            import sync
            sync.run_sync(ctx)
    ctx.assumptions += [
        "the template universe (11 transactions, 3 assets, batches of 1-2) bounds the histories; amounts are whole units",
        "one representative honest node both validates (as signer) and applies; certificates are produced with the genesis keys",
        "mints and node operations are not part of the replayed ledger histories (they are covered by the pipeline scenarios of C21/C22)",
    ]
