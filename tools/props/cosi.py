"""C13 — collective signatures verify exactly when built from valid shares (spec/Cosi: Cosi.tla, MC_Cosi.tla,
Trace_Cosi.tla; harness/inpkg/crypto/zz_verif_cosi_test.go)."""
import json, os, random
from concurrent.futures import ThreadPoolExecutor

PROPS = ["C13"]
from vlib import read_ndjson, Infra


def validate_stateless(ctx, d, tla, base, events, per, what, label):
    """Shard a stateless trace, full pass then monitor pass per shard (in parallel)."""
    shards = [events[i:i + per] for i in range(0, len(events), per)]
    paths = []
    for i, sh in enumerate(shards):
        p = os.path.join(ctx.scratch, "%s-shard%d.ndjson" % (label, i))
        with open(p, "w") as fh:
            for e in sh:
                fh.write(json.dumps(e) + "\n")
        paths.append(p)

    def check(i):
        r = ctx.tlc_trace(d, tla, base + "_full.cfg", paths[i], timeout=1200, dfs=False)
        if r["accepted"]:
            return r, None
        return r, ctx.tlc_trace(d, tla, base + "_monitor.cfg", paths[i], timeout=1200, dfs=False)

    with ThreadPoolExecutor(max_workers=4) as ex:
        results = list(ex.map(check, range(len(shards))))
    for sh, (r, r2) in zip(shards, results):
        if r["accepted"]:
            ctx.traces += len(sh)
            continue
        ln = r["line"] or 1
        ctx.mismatches.append({"event": sh[ln - 1] if ln <= len(sh) else None, "invariant": r["invariant"]})
        if r2["accepted"]:
            ctx.traces += len(sh)
            ctx.notes.append("conformance mismatch not forbidden by %s (see conformance_mismatches)" % ctx.pid)
            continue
        ln = r2["line"] or 1
        ctx.traces += ln - 1
        ev = sh[ln - 1] if ln <= len(sh) else None
        ctx.violation("%s (monitor %s): %s" % (what, r2["invariant"] or "rejected", json.dumps(ev)),
                      {"trace": [ev], "failing_index": 0, "seed": ctx.seed,
                       "how": "python3 tools/vcheck.py %s --replay <this file> re-executes the case on the real code" % ctx.pid})


def dedupe(cases):
    seen, out = set(), []
    for c in cases:
        k = json.dumps(c, sort_keys=True)
        if k not in seen:
            seen.add(k)
            out.append(c)
    return out


def run(ctx, args):
    quick = ctx.tier == "quick"
    d = ctx.specdir("Cosi")
    tier = "quick" if quick else "thorough"
    if getattr(args, "replay", None):
        obj = json.load(open(args.replay))
        cases = [e["c"] for e in obj["replay"]["trace"]]
        layouts = [e.get("layout", "any") for e in obj["replay"]["trace"]][:1]
        ctx.seed = obj.get("seed", ctx.seed)
        ctx.tlc_mc(d, "MC_Cosi.tla", "MC_Cosi_quick.cfg", workers=4, timeout=900)   # the case space the replayed case belongs to
    else:
        pool = ThreadPoolExecutor(max_workers=4)
        futs = [pool.submit(ctx.tlc_mc, d, "MC_Cosi.tla", "MC_Cosi_%s.cfg" % tier, 4, (), 900, False, None, False)]
        for cfg, inv in (("Reach_Comp", "ReachCompensated"), ("Reach_Swap", "ReachSwapVerifies")):
            futs.append(pool.submit(ctx.tlc_mc, d, "MC_Cosi.tla", "MC_Cosi_%s.cfg" % cfg, 2, (), 600, False, inv, False))
        cases = dedupe(ctx.tlc_edges(d, "MC_Cosi.tla", "Gen_Cosi_%s.cfg" % tier, tag="CASE "))
        r = futs[0].result()
        ctx.states += r["distinct"]
        ctx.transitions += r["generated"]
        for f in futs[1:]:
            f.result()
        pool.shutdown()
        ctx.exhaustive = True
        ctx.cov["non_vacuity_witnesses"] = ["compensating +1/-1 shares verify while strict aggregation rejects",
                                            "swapping two masked keys still verifies (plain-sum aggregate key)"]
        layouts = ["any"] if quick else ["tight", "spread", "wide"]
    cf = os.path.join(ctx.scratch, "cases.json")
    with open(cf, "w") as fh:
        json.dump({"cases": cases, "layout": layouts, "wide": 64}, fh)
    trace = os.path.join(ctx.scratch, "trace.ndjson")
    ctx.go_harness("crypto", "^TestVerifCosi$", env={"VERIF_CASES": cf, "VERIF_TRACE": trace}, timeout=1500)
    events = read_ndjson(trace)
    ctx.evaluations = len(events)
    ctx.distinct = len({json.dumps(e["c"], sort_keys=True) for e in events
                        if e["c"]["tam"] or e["c"]["dom"]["op"] != "exact" or e["c"]["form"]["op"] != "agg"
                        or e["c"]["vmsg"] != "same" or e["c"]["vkeys"]["op"] != "same" or e["c"]["thr"] != 1})
    ctx.cov["accepted_by_FullVerify"] = sum(1 for e in events if e["fv"])
    ctx.cov["rejected_by_FullVerify"] = sum(1 for e in events if not e["fv"])
    ctx.cov["reused_value_verifications"] = 4 * len(events)   # fvUsed, fvCopy, fvAgg, fvBack per case
    ctx.cov["wide_vector_cases"] = sum(1 for e in events if e.get("N", 0) >= 63)
    ctx.rule = ("every case of the TLC-enumerated space (1..4 abstract keys, every mask incl. an index outside the "
                "vector, thresholds 0..n+1, %s deviation(s) among share tampering / response-map domain / final-signature "
                "shape / message / key vector) executed with real keys%s; distinct = distinct abstract cases other "
                "than the plain honest threshold-1 run"
                % ("one" if quick else "up to two",
                   " (random layout incl. 64-key vectors)" if quick else " in three layouts (n keys, spread, 64-key vector)"))
    ctx.samples = [{k: e[k] for k in ("c", "commit", "vr", "aggS", "aggN", "fv", "N")} for e in events[:2] + events[-2:]]
    validate_stateless(ctx, d, "Trace_Cosi.tla", "Trace_Cosi", events, 6000,
                       "real CoSi functions disagree with the collective-signature specification", "cosi")
    ctx.log("E2: %d case executions accepted by TLC" % ctx.traces)
    ctx.assumptions += [
        "cryptographic hardness is assumed: signatures and shares are symbolic in the specification (Good, Plus, Minus, "
        "WrongKey, WrongNonce, WrongMsg, NonCanon, dropped / duplicated share, flipped mask bit), each concretized as a "
        "real forgery of that shape; 'no other forgery exists' is not decided",
        "key vectors are bounded to 4 abstract keys placed inside real vectors of up to 64 keys",
    ]
